//! Shared machinery: counters, parallel partitioning, comparison policy, known findings,
//! replay artefacts and evidence files.

#![allow(dead_code)]

use crate::refmodel::*;
use corgi::array::Array;
use corgi::numbers::Float;
use serde_json::{json, Value};
use std::collections::{BTreeMap, BTreeSet, HashSet};
use std::panic::{catch_unwind, AssertUnwindSafe};
use std::time::Instant;

pub fn verif_dir() -> String {
    std::env::var("VERIF_ROOT").unwrap_or_else(|_| "/verif".to_string())
}

#[cfg(feature = "f32")]
pub const IS_F32: bool = true;
#[cfg(not(feature = "f32"))]
pub const IS_F32: bool = false;

/// relative tolerance against the running error bound
pub fn tau() -> f64 {
    if IS_F32 {
        2.0e-3
    } else {
        std::env::var("VERIF_TAU").ok().and_then(|s| s.parse().ok()).unwrap_or(1.0e-11)
    }
}
/// largest magnitude below which integer arithmetic is exact
pub fn exact_limit() -> f64 {
    if IS_F32 {
        16_777_216.0
    } else {
        9_007_199_254_740_992.0
    }
}

#[derive(Clone, Copy, Debug, PartialEq, Eq)]
pub enum Tier {
    Quick,
    Thorough,
}

#[derive(Clone, Debug)]
pub struct Opts {
    pub id: String,
    pub tier: Tier,
    pub seed: u64,
    pub only: Option<String>,
    pub threads: usize,
    pub verbose: bool,
}

thread_local! {
    /// depth of `run_catch` frames on this thread: panics inside are expected outcomes (refusals)
    pub static CATCH_DEPTH: std::cell::Cell<usize> = std::cell::Cell::new(0);
}

pub fn run_catch<R>(f: impl FnOnce() -> R) -> Result<R, String> {
    CATCH_DEPTH.with(|d| d.set(d.get() + 1));
    let res = catch_unwind(AssertUnwindSafe(f));
    CATCH_DEPTH.with(|d| d.set(d.get() - 1));
    match res {
        Ok(r) => Ok(r),
        Err(e) => {
            let msg = if let Some(s) = e.downcast_ref::<&str>() {
                s.to_string()
            } else if let Some(s) = e.downcast_ref::<String>() {
                s.clone()
            } else {
                "panic".to_string()
            };
            Err(msg)
        }
    }
}

pub fn fnv(h: &mut u64, bytes: &[u8]) {
    for b in bytes {
        *h ^= *b as u64;
        *h = h.wrapping_mul(0x100000001b3);
    }
}
pub fn digest_vals(dims: &[usize], vals: &[Float]) -> u64 {
    let mut h = 0xcbf29ce484222325u64;
    for d in dims {
        fnv(&mut h, &(*d as u32).to_le_bytes());
    }
    fnv(&mut h, &[0xff]);
    for v in vals {
        fnv(&mut h, &(*v as f64).to_bits().to_le_bytes());
    }
    h
}
pub fn digest_str(s: &str) -> u64 {
    let mut h = 0xcbf29ce484222325u64;
    fnv(&mut h, s.as_bytes());
    h
}

#[derive(Clone, Debug)]
pub struct Violation {
    pub sub: String,
    pub case: String,
    pub detail: String,
}

/// Per-thread accumulator.
#[derive(Default)]
pub struct Local {
    pub states: u64,
    pub transitions: u64,
    pub validated: u64,
    pub counters: BTreeMap<String, u64>,
    pub outcomes: HashSet<u64>,
    pub samples: Vec<String>,
    pub violations: Vec<Violation>,
    pub violation_count: u64,
    pub only: Option<String>,
    pub sample_every: u64,
    seen_for_sampling: u64,
}

pub const MAX_STORED_VIOLATIONS: usize = 200_000;

impl Local {
    pub fn new(only: Option<String>) -> Local {
        Local { only, sample_every: 1, ..Default::default() }
    }
    pub fn count(&mut self, k: &str) {
        self.count_n(k, 1);
    }
    pub fn count_n(&mut self, k: &str, n: u64) {
        if let Some(c) = self.counters.get_mut(k) {
            *c += n;
        } else {
            self.counters.insert(k.to_string(), n);
        }
    }
    pub fn outcome(&mut self, d: u64) {
        if self.outcomes.len() < (1 << 22) {
            self.outcomes.insert(d);
        }
    }
    /// should this case be executed? (`--only` restricts the run to one case string)
    pub fn want(&self, case: &dyn Fn() -> String) -> bool {
        match &self.only {
            None => true,
            Some(o) => *o == case(),
        }
    }
    pub fn sample(&mut self, case: &dyn Fn() -> String) {
        self.seen_for_sampling += 1;
        if self.samples.len() < 4 && self.seen_for_sampling % self.sample_every.max(1) == 0 {
            self.samples.push(case());
        } else if self.samples.len() < 8 && self.seen_for_sampling.is_power_of_two() {
            self.samples.push(case());
        }
    }
    pub fn violation(&mut self, sub: &str, case: String, detail: String) {
        self.violation_count += 1;
        if self.violations.len() < MAX_STORED_VIOLATIONS {
            self.violations.push(Violation { sub: sub.to_string(), case, detail });
        }
    }
    pub fn merge(&mut self, o: Local) {
        self.states += o.states;
        self.transitions += o.transitions;
        self.validated += o.validated;
        for (k, v) in o.counters {
            *self.counters.entry(k).or_insert(0) += v;
        }
        for d in o.outcomes {
            self.outcome(d);
        }
        for s in o.samples {
            if self.samples.len() < 12 {
                self.samples.push(s);
            }
        }
        self.violation_count += o.violation_count;
        for v in o.violations {
            if self.violations.len() < MAX_STORED_VIOLATIONS {
                self.violations.push(v);
            }
        }
    }
}

/// Run `f(item, local)` for every item in 0..n, partitioned over threads by a fixed stride.
/// Arrays never cross threads; results are merged in thread order (deterministic).
pub fn par<F>(opts: &Opts, n: usize, f: F) -> Local
where
    F: Fn(usize, &mut Local) + Sync,
{
    let t = opts.threads.max(1).min(n.max(1));
    let mut locals: Vec<Local> = Vec::new();
    std::thread::scope(|s| {
        let mut hs = Vec::new();
        for ti in 0..t {
            let f = &f;
            let only = opts.only.clone();
            hs.push(
                std::thread::Builder::new()
                    .stack_size(64 << 20)
                    .spawn_scoped(s, move || {
                        let mut l = Local::new(only);
                        let mut i = ti;
                        while i < n {
                            f(i, &mut l);
                            i += t;
                        }
                        l
                    })
                    .unwrap(),
            );
        }
        for h in hs {
            locals.push(h.join().expect("worker thread crashed (machinery error)"));
        }
    });
    let mut total = Local::new(opts.only.clone());
    for l in locals {
        total.merge(l);
    }
    total
}

// ---------------------------------------------------------------------------------------------
// comparison policy
// ---------------------------------------------------------------------------------------------

#[derive(Clone, Copy, PartialEq, Eq)]
pub enum Part {
    Value,
    Tangent,
}

/// Compare implementation numbers with reference scalars. `Value` compares `.v` under bound `.m`,
/// `Tangent` compares `.d` under `.md`.
pub fn cmp_slice(imp: &[Float], r: &[Du], part: Part) -> Result<(), String> {
    if imp.len() != r.len() {
        return Err(format!("length {} vs reference {}", imp.len(), r.len()));
    }
    for (i, (a, d)) in imp.iter().zip(r).enumerate() {
        let a = *a as f64;
        let (want, bound) = match part {
            Part::Value => (d.v, d.m),
            Part::Tangent => (d.d, d.md),
        };
        if part == Part::Tangent && d.amb {
            continue;
        }
        let ok = if d.ex && bound < exact_limit() {
            a == want
        } else {
            // absolute floor: results below the smallest normal number may be flushed
            (a - want).abs() <= tau() * bound.max(want.abs()) + if IS_F32 { 1.0e-30 } else { 1.0e-320 }
        };
        if !ok || !a.is_finite() {
            return Err(format!(
                "element {}: got {:?}, reference {:?} (bound {:.3e}, exact={})",
                i, a, want, bound, d.ex
            ));
        }
    }
    Ok(())
}

/// As `cmp_slice`, for spaces whose valuations contain or produce infinities *without
/// cancellation* (every sum has terms of one sign, so every evaluation order agrees): where the
/// reference is +-inf the implementation must return exactly that infinity, where the reference
/// is NaN (inf - inf, 0 * inf) nothing is compared, everything else follows the usual policy.
pub fn cmp_slice_inf(imp: &[Float], r: &[Du], part: Part) -> Result<(), String> {
    if imp.len() != r.len() {
        return Err(format!("length {} vs reference {}", imp.len(), r.len()));
    }
    for (i, (a, d)) in imp.iter().zip(r).enumerate() {
        let want = match part {
            Part::Value => d.v,
            Part::Tangent => d.d,
        };
        if want.is_nan() {
            continue;
        }
        if want.is_infinite() || (IS_F32 && want.abs() > f32::MAX as f64) {
            if IS_F32 && want.is_finite() && want.abs() < 2.0 * f32::MAX as f64 {
                continue;
            }
            if (*a as f64) != want.signum() * f64::INFINITY {
                return Err(format!("element {}: got {:?}, reference {:?} (the terms have one sign: every summation order overflows to that infinity)", i, *a as f64, want));
            }
            continue;
        }
        cmp_slice(std::slice::from_ref(a), std::slice::from_ref(d), part).map_err(|e| e.replacen("element 0", &format!("element {}", i), 1))?;
    }
    Ok(())
}

pub fn cmp_array(a: &Array, r: &T, part: Part) -> Result<(), String> {
    if a.dimensions() != &r.dims[..] {
        return Err(format!("dimensions {:?}, reference {:?}", a.dimensions(), r.dims));
    }
    cmp_slice(a.values(), &r.x, part)
}

pub fn arr(dims: &[usize], vals: &[f64]) -> Array {
    Array::from((dims.to_vec(), vals.iter().map(|v| *v as Float).collect::<Vec<Float>>()))
}

pub fn fmt_vals(v: &[Float]) -> String {
    let v: Vec<f64> = v.iter().map(|x| *x as f64).collect();
    format!("{:?}", v)
}

// ---------------------------------------------------------------------------------------------
// known findings
// ---------------------------------------------------------------------------------------------

#[derive(Clone, Debug)]
pub struct KnownFinding {
    pub property: String,
    pub id: String,
    pub what: String,
    pub cases: BTreeSet<String>,
}

pub fn load_known_findings(property: &str) -> Vec<KnownFinding> {
    let path = format!("{}/known_findings.txt", verif_dir());
    let text = std::fs::read_to_string(&path).unwrap_or_default();
    let mut out = Vec::new();
    for line in text.lines() {
        let line = line.trim();
        if !line.starts_with("open:") {
            continue;
        }
        let mut prop = String::new();
        let mut id = String::new();
        let mut cases_file = String::new();
        let mut what = Vec::new();
        for tok in line["open:".len()..].split_whitespace() {
            if let Some(v) = tok.strip_prefix("property=") {
                prop = v.to_string();
            } else if let Some(v) = tok.strip_prefix("id=") {
                id = v.to_string();
            } else if let Some(v) = tok.strip_prefix("cases=") {
                cases_file = v.to_string();
            } else {
                what.push(tok);
            }
        }
        if prop != property {
            continue;
        }
        let mut cases = BTreeSet::new();
        if !cases_file.is_empty() {
            let p = format!("{}/{}", verif_dir(), cases_file);
            let t = std::fs::read_to_string(&p)
                .unwrap_or_else(|e| machinery_error(&format!("cannot read {}: {}", p, e)));
            for l in t.lines() {
                let l = l.trim();
                if !l.is_empty() && !l.starts_with('#') {
                    cases.insert(l.to_string());
                }
            }
        }
        out.push(KnownFinding { property: prop, id, what: what.join(" "), cases });
    }
    out
}

pub fn machinery_error(msg: &str) -> ! {
    eprintln!("MACHINERY-ERROR: {}", msg);
    std::process::exit(2);
}

// ---------------------------------------------------------------------------------------------
// finishing a check: classification, replay files, evidence, exit code
// ---------------------------------------------------------------------------------------------

pub struct Finish {
    pub opts: Opts,
    pub start: Instant,
    pub total: Local,
    pub exhaustive: bool,
    pub bounds: Value,
    pub rule: String,
    pub assumptions: Vec<String>,
    pub extra: BTreeMap<String, Value>,
    /// minimum number of distinct outcomes below which the run is considered vacuous
    pub min_outcomes: usize,
}

impl Finish {
    pub fn new(opts: &Opts, start: Instant, total: Local) -> Finish {
        Finish {
            opts: opts.clone(),
            start,
            total,
            exhaustive: true,
            bounds: json!({}),
            rule: String::new(),
            assumptions: Vec::new(),
            extra: BTreeMap::new(),
            min_outcomes: 2,
        }
    }

    pub fn finish(self) -> i32 {
        let id = self.opts.id.clone();
        let known = load_known_findings(&id);
        let mut new_violations: Vec<&Violation> = Vec::new();
        let mut known_hits: BTreeMap<String, u64> = BTreeMap::new();
        for v in &self.total.violations {
            let mut hit = None;
            for k in &known {
                if k.cases.contains(&v.case) {
                    hit = Some(k.id.clone());
                    break;
                }
            }
            match hit {
                Some(k) => *known_hits.entry(k).or_insert(0) += 1,
                None => new_violations.push(v),
            }
        }
        let overflow = self.total.violation_count as usize > self.total.violations.len();

        for k in &known {
            if let Some(n) = known_hits.get(&k.id) {
                println!(
                    "KNOWN-FINDING: property={} id={} reproduced_cases={} {}",
                    id, k.id, n, k.what
                );
            }
        }

        // replay artefacts for new violations (distinct cases, capped)
        let mut printed = 0usize;
        let mut seen_cases = BTreeSet::new();
        let replay_dir = format!("{}/replays", verif_dir());
        let mut first_paths = Vec::new();
        new_violations.sort_by(|a, b| (a.case.len(), &a.sub, &a.case).cmp(&(b.case.len(), &b.sub, &b.case)));
        for v in &new_violations {
            if !seen_cases.insert((v.sub.clone(), v.case.clone())) {
                continue;
            }
            if printed < 25 {
                let _ = std::fs::create_dir_all(&replay_dir);
                let dg = digest_str(&format!("{}|{}", v.sub, v.case));
                let path = format!("{}/{}-{:016x}.json", replay_dir, id, dg);
                let body = json!({
                    "property_id": id,
                    "sub_check": v.sub,
                    "case": v.case,
                    "detail": v.detail,
                    "float": if IS_F32 { "f32" } else { "f64" },
                    "replay_cmd": format!("/verif/check replay {}", path),
                });
                let _ = std::fs::write(&path, serde_json::to_string_pretty(&body).unwrap());
                println!("VIOLATION property={} replay={}", id, path);
                println!("  sub-check: {}\n  case: {}\n  detail: {}", v.sub, v.case, v.detail);
                first_paths.push(path);
                printed += 1;
            }
        }
        let distinct_new = seen_cases.len();
        if distinct_new > 0 {
            let mut by_sub: BTreeMap<String, u64> = BTreeMap::new();
            for (sub, _) in &seen_cases {
                *by_sub.entry(sub.clone()).or_insert(0) += 1;
            }
            println!("violating cases by sub-check: {:?}", by_sub);
        }
        if distinct_new > printed {
            println!(
                "... {} further distinct violating cases not written out (total violating executions: {})",
                distinct_new - printed,
                self.total.violation_count
            );
        }
        if overflow && new_violations.is_empty() {
            // more violations than we stored, and everything stored was known: cannot classify the rest
            println!(
                "VIOLATION property={} replay={}/overflow (more violations than the classifier stores)",
                id, replay_dir
            );
        }

        let wall = self.start.elapsed().as_secs_f64();
        let vacuous = self.total.outcomes.len() < self.min_outcomes && self.opts.only.is_none();
        let mut cov = serde_json::Map::new();
        cov.insert("states".into(), json!(self.total.states.max(1)));
        cov.insert("transitions".into(), json!(self.total.transitions.max(1)));
        cov.insert("traces_validated_against_impl".into(), json!(self.total.validated));
        cov.insert("exhaustive".into(), json!(self.exhaustive));
        cov.insert("bounds".into(), self.bounds.clone());
        cov.insert("rule".into(), json!(self.rule));
        cov.insert("evaluations".into(), json!(self.total.transitions.max(1)));
        cov.insert("distinct_nontrivial".into(), json!(self.total.outcomes.len()));
        cov.insert("distinct_outcomes".into(), json!(self.total.outcomes.len()));
        // the set of outcome digests is only a vacuity guard and stops growing at this size
        cov.insert("distinct_outcomes_counter_saturates_at".into(), json!(1u64 << 22));
        let mut samples = self.total.samples.clone();
        if samples.is_empty() {
            samples.push("(no case executed)".to_string());
        }
        cov.insert("samples".into(), json!(samples));
        cov.insert("counters".into(), json!(self.total.counters));
        cov.insert(
            "known_findings_reproduced".into(),
            json!(known_hits),
        );
        cov.insert("float".into(), json!(if IS_F32 { "f32" } else { "f64" }));
        for (k, v) in &self.extra {
            cov.insert(k.clone(), v.clone());
        }
        let ev = json!({
            "property_id": id,
            "tier": if self.opts.tier == Tier::Quick { "quick" } else { "thorough" },
            "seed": self.opts.seed,
            "level": "model_checking",
            "coverage": Value::Object(cov),
            "assumptions": self.assumptions,
            "wall_s": wall,
            "violations": distinct_new,
            "violating_executions": self.total.violation_count,
        });
        if self.opts.only.is_none() {
            let dir = format!("{}/evidence", verif_dir());
            let _ = std::fs::create_dir_all(&dir);
            let path = format!("{}/{}.json", dir, id);
            std::fs::write(&path, serde_json::to_string_pretty(&ev).unwrap())
                .unwrap_or_else(|e| machinery_error(&format!("cannot write evidence: {}", e)));
        }
        println!(
            "[{}] states={} transitions={} validated={} distinct_outcomes={} violations={} (executions {}) known={} wall={:.1}s exhaustive={}",
            id,
            self.total.states,
            self.total.transitions,
            self.total.validated,
            self.total.outcomes.len(),
            distinct_new,
            self.total.violation_count,
            known_hits.values().sum::<u64>(),
            wall,
            self.exhaustive
        );
        if distinct_new > 0 || (overflow && new_violations.is_empty()) {
            return 1;
        }
        if vacuous {
            eprintln!("MACHINERY-ERROR: vacuous exploration ({} distinct outcomes)", self.total.outcomes.len());
            return 2;
        }
        0
    }
}
