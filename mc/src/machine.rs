//! Engine E3: the handle-pool machine.
//!
//! A state is reached by a history of user-level actions (build / clone / drop / flag / backward /
//! clear / fetch / adopt / update). Every transition replays the whole history on freshly built
//! real arrays and on the reference world, observes every live handle through the public API and
//! compares. Search is stateright's explicit-state BFS; states are merged on the reference state
//! plus the implementation's hidden bookkeeping read through the read-only probe hook.

#![allow(dead_code)]

use crate::common::*;
use crate::ops::*;
use crate::refmodel::*;
use corgi::array::{Array, VerifProbe};
use corgi::numbers::Float;
use corgi::optimizer::gd::GradientDescent;
use corgi::optimizer::Optimizer;
use std::collections::HashMap;
use std::hash::{Hash, Hasher};
use std::sync::Mutex;

// ---------------------------------------------------------------------------------------------
// actions
// ---------------------------------------------------------------------------------------------

/// up to three slot numbers, stored inline (histories are kept for every state of the search)
#[derive(Clone, Copy, PartialEq, Eq, Hash)]
pub struct Args {
    a: [u8; 3],
    n: u8,
}

impl Args {
    pub fn from_slice(v: &[u8]) -> Args {
        assert!(v.len() <= 3);
        let mut a = [0u8; 3];
        a[..v.len()].copy_from_slice(v);
        Args { a, n: v.len() as u8 }
    }
    pub fn as_slice(&self) -> &[u8] {
        &self.a[..self.n as usize]
    }
    pub fn iter(&self) -> std::slice::Iter<'_, u8> {
        self.as_slice().iter()
    }
    pub fn len(&self) -> usize {
        self.n as usize
    }
    pub fn contains(&self, x: &u8) -> bool {
        self.as_slice().contains(x)
    }
}

impl std::fmt::Debug for Args {
    fn fmt(&self, f: &mut std::fmt::Formatter) -> std::fmt::Result {
        write!(f, "{:?}", self.as_slice())
    }
}

impl From<Vec<u8>> for Args {
    fn from(v: Vec<u8>) -> Args {
        Args::from_slice(&v)
    }
}

#[derive(Clone, Debug, PartialEq, Eq, Hash)]
pub enum Act {
    /// dst = op(args); dst may be one of the argument slots (re-binding)
    Build { op: u8, args: Args, dst: u8 },
    Clone { src: u8, dst: u8 },
    Drop { slot: u8 },
    /// 0 = tracked(), 1 = untracked(), 2 = start_tracking(), 3 = stop_tracking()
    Flag { slot: u8, kind: u8 },
    /// seed: 0 = None, 1 = generic, 2 = zeros, 4 = ones scaled by 1e-6, 3 = a clone of a live plain untracked handle of the
    /// root's shape (the highest such slot other than the root): the caller keeps the seed
    Backward { slot: u8, seed: u8 },
    /// via: 0 = replace_gradient(), 1 = *gradient_mut() = None
    Clear { slot: u8, via: u8 },
    /// dst = slot.gradient().clone().unwrap()
    Fetch { slot: u8, dst: u8 },
    /// dst = slot.gradient().clone().unwrap().tracked()
    Adopt { slot: u8, dst: u8 },
    /// GradientDescent::new(lr).update(handles in `slots`)
    Update { slots: Args, lr: u8 },
    /// op(args) on operands the reference says must be refused: the call must panic, and (caught)
    /// leave every handle and all hidden bookkeeping exactly as they were
    Refused { op: u8, args: Args },
}

pub const LRS: [f64; 2] = [0.5, 2.0];

/// build actions a machine did not generate because the reference refuses the operands / puts the
/// result outside the compared domain / calls the combination unspecified (counted per generation)
pub static FILTERED_BUILDS: [std::sync::atomic::AtomicU64; 3] = [std::sync::atomic::AtomicU64::new(0), std::sync::atomic::AtomicU64::new(0), std::sync::atomic::AtomicU64::new(0)];

pub fn fmt_act(cfg: &MCfg, a: &Act) -> String {
    match a {
        Act::Build { op, args, dst } => format!(
            "h{}={}({})",
            dst,
            cfg.ops[*op as usize].name(),
            args.iter().map(|a| format!("h{}", a)).collect::<Vec<_>>().join(",")
        ),
        Act::Clone { src, dst } => format!("h{}=h{}.clone()", dst, src),
        Act::Drop { slot } => format!("drop(h{})", slot),
        Act::Flag { slot, kind } => match kind {
            0 => format!("h{0}=h{0}.tracked()", slot),
            1 => format!("h{0}=h{0}.untracked()", slot),
            2 => format!("h{}.start_tracking()", slot),
            _ => format!("h{}.stop_tracking()", slot),
        },
        Act::Backward { slot, seed } => format!("h{}.backward({})", slot, ["None", "generic", "zeros", "Some(plain handle.clone())", "1e-6*ones"][*seed as usize]),
        Act::Clear { slot, via } => {
            if *via == 0 {
                format!("h{}.replace_gradient()", slot)
            } else {
                format!("*h{}.gradient_mut()=None", slot)
            }
        }
        Act::Fetch { slot, dst } => format!("h{}=h{}.gradient().clone().unwrap()", dst, slot),
        Act::Adopt { slot, dst } => format!("h{}=h{}.gradient().clone().unwrap().tracked()", dst, slot),
        Act::Refused { op, args } => format!(
            "must-refuse:{}({})",
            cfg.ops[*op as usize].name(),
            args.iter().map(|a| format!("h{}", a)).collect::<Vec<_>>().join(",")
        ),
        Act::Update { slots, lr } => format!(
            "gd({}).update([{}])",
            LRS[*lr as usize],
            slots.iter().map(|s| format!("h{}", s)).collect::<Vec<_>>().join(",")
        ),
    }
}

pub fn fmt_hist(cfg: &MCfg, h: &[Act]) -> String {
    let leaves: Vec<String> = cfg
        .leaves
        .iter()
        .enumerate()
        .map(|(i, l)| format!("h{}={}{}", i, crate::shapes::fmt_dims(&l.dims), if l.tracked { "T" } else { "U" }))
        .collect();
    format!("[{}] {}", leaves.join(","), h.iter().map(|a| fmt_act(cfg, a)).collect::<Vec<_>>().join("; "))
}

// ---------------------------------------------------------------------------------------------
// configuration
// ---------------------------------------------------------------------------------------------

#[derive(Clone, Debug)]
pub struct LeafSpec {
    pub dims: Vec<usize>,
    pub vals: Vec<f64>,
    pub tracked: bool,
}

#[derive(Clone, Debug, Default)]
pub struct Bounds {
    pub builds: u8,
    pub passes: u8,
    pub clears: u8,
    pub drops: u8,
    pub clones: u8,
    pub flags: u8,
    pub fetches: u8,
    pub adopts: u8,
    pub updates: u8,
    pub depth: u8,
    /// refused builds per history (executed, must panic, must leave no trace)
    pub refusals: u8,
}

#[derive(Clone, Debug)]
pub struct MCfg {
    pub name: String,
    pub leaves: Vec<LeafSpec>,
    pub nslots: usize,
    pub ops: Vec<OpK>,
    pub bounds: Bounds,
    pub seeds: Vec<u8>,
    pub flag_kinds: Vec<u8>,
    pub clear_vias: Vec<u8>,
    /// allow results to be bound over one of their operand slots
    pub rebind: bool,
    /// may leaves be dropped / flagged
    pub touch_leaves: bool,
    /// oracles
    pub check_ref: bool,
    pub check_snapshot: bool,
    pub check_fresh_diff: bool,
    pub check_ownership: bool,
    /// C11's log oracle: every user-op node of the differentiated graph has its closure invoked
    /// exactly once per pass, with its complete adjoint, after all its consumers
    pub check_log: bool,
    /// merge states on (reference state, probe); otherwise the history is the state (full tree)
    pub merged: bool,
    /// slots that Update may be applied to (leaf slots)
    pub update_slots: Vec<u8>,
}

// ---------------------------------------------------------------------------------------------
// reference world
// ---------------------------------------------------------------------------------------------

#[derive(Clone, Debug)]
pub enum Grad {
    None,
    /// values live in the tangent slots (d, md) of the scalars; `node` is the gradient array's node
    Known { vals: Vec<Du>, node: usize },
    /// the statement does not determine whether a gradient is stored here
    Unknown,
}

#[derive(Clone, Debug)]
pub struct REdge {
    pub node: usize,
    pub tracked: bool,
    pub keep: bool,
}

#[derive(Clone, Debug)]
pub struct RNode {
    pub t: T,
    pub op: Option<u8>,
    pub edges: Vec<REdge>,
    pub has_graph: bool,
    pub grad: Grad,
    pub buffer: usize,
    /// an original template leaf (entitled to the ownership probe)
    pub template: bool,
    /// a gradient array (values in t)
    pub is_gradient_array: bool,
    /// 100 + index of the Build action that created the node (the tag its user closure logs)
    pub tag: usize,
}

#[derive(Clone, Debug, PartialEq)]
pub struct RHandle {
    pub node: usize,
    pub tracked: bool,
    pub keep: bool,
}

#[derive(Clone, Debug)]
pub struct RWorld {
    pub nodes: Vec<RNode>,
    pub slots: Vec<Option<RHandle>>,
    pub next_buffer: usize,
    /// tag of the action being applied (set by the replayer)
    pub next_tag: usize,
}

/// what the user-closure log of one pass must contain: (tag, adjoint, operand flags, consumer tags)
pub struct ExpectedLog {
    pub entries: Vec<(usize, Vec<Du>, Vec<bool>, Vec<usize>)>,
}

impl RWorld {
    pub fn new(cfg: &MCfg) -> RWorld {
        let mut w = RWorld { nodes: Vec::new(), slots: vec![None; cfg.nslots], next_buffer: 0, next_tag: 0 };
        for (i, l) in cfg.leaves.iter().enumerate() {
            let b = w.fresh_buffer();
            w.nodes.push(RNode {
                t: T::from_f64(l.dims.clone(), &l.vals),
                op: None,
                edges: vec![],
                has_graph: false,
                grad: Grad::None,
                buffer: b,
                template: true,
                is_gradient_array: false,
                tag: 0,
            });
            w.slots[i] = Some(RHandle { node: i, tracked: l.tracked, keep: l.tracked });
        }
        w
    }
    fn fresh_buffer(&mut self) -> usize {
        self.next_buffer += 1;
        self.next_buffer
    }
    fn new_plain_node(&mut self, t: T, is_grad: bool) -> usize {
        let b = self.fresh_buffer();
        self.nodes.push(RNode { t, op: None, edges: vec![], has_graph: false, grad: Grad::None, buffer: b, template: false, is_gradient_array: is_grad, tag: 0 });
        self.nodes.len() - 1
    }

    /// Evaluate the graph in forward mode with the tangent injected at (node, element).
    /// Only nodes <= upto are evaluated. Tangents flow over tracked edges of nodes with a graph.
    fn eval(&self, cfg: &MCfg, upto: usize, inject: (usize, usize)) -> Result<Vec<Option<T>>, RErr> {
        let mut vals: Vec<Option<T>> = vec![None; upto + 1];
        for i in 0..=upto {
            let n = &self.nodes[i];
            let mut t = match n.op {
                None => n.t.strip(),
                Some(op) => {
                    if !n.has_graph {
                        n.t.strip()
                    } else {
                        let args: Vec<T> = n
                            .edges
                            .iter()
                            .map(|e| {
                                let v = vals[e.node].as_ref().unwrap();
                                if e.tracked {
                                    v.clone()
                                } else {
                                    v.strip()
                                }
                            })
                            .collect();
                        let refs: Vec<&T> = args.iter().collect();
                        apply_ref(&cfg.ops[op as usize], &refs)?
                    }
                }
            };
            if inject.0 == i {
                t = t.with_basis(inject.1);
            }
            vals[i] = Some(t);
        }
        Ok(vals)
    }

    /// nodes reached from `root` over tracked edges, with the keep flags of the delivering edges
    fn reached(&self, root: usize) -> Vec<Option<Vec<bool>>> {
        let mut r: Vec<Option<Vec<bool>>> = vec![None; self.nodes.len()];
        r[root] = Some(vec![]);
        for i in (0..=root).rev() {
            if r[i].is_none() {
                continue;
            }
            let n = &self.nodes[i];
            if !n.has_graph {
                continue;
            }
            for e in &n.edges {
                if e.tracked {
                    r[e.node].get_or_insert_with(Vec::new).push(e.keep);
                }
            }
        }
        r
    }

    fn adjoint(&self, cfg: &MCfg, root: usize, seed: &[f64], node: usize) -> Result<Vec<Du>, RErr> {
        let n = self.nodes[node].t.len();
        let mut out = Vec::with_capacity(n);
        for e in 0..n {
            let vals = self.eval(cfg, root, (node, e))?;
            let r = vals[root].as_ref().unwrap();
            let mut v = 0.0;
            let mut m = 0.0;
            let mut ex = true;
            let mut amb = false;
            for (i, d) in r.x.iter().enumerate() {
                let s = seed[i];
                v += s * d.d;
                m += s.abs() * d.md + (s * d.d).abs();
                ex = ex && d.ex && s.fract() == 0.0;
                amb = amb || (d.amb && s != 0.0);
            }
            out.push(Du { v: 0.0, d: v, m: 0.0, md: m, ex, amb });
        }
        Ok(out)
    }

    /// the closure invocations a pass from `slot` must produce (user-op nodes only)
    pub fn expected_log(&self, cfg: &MCfg, slot: usize, seed: u8) -> Result<ExpectedLog, RErr> {
        let h = self.slots[slot].clone().unwrap();
        let root = h.node;
        let n = self.nodes[root].t.len();
        let seedv: Vec<f64> = match seed {
            0 => vec![1.0; n],
            1 => crate::prog::seed_vals(n, 1),
            2 => vec![0.0; n],
            4 => vec![1.0e-6; n],
            _ => match self.seed_handle(slot) {
                Some(s) => self.nodes[self.slots[s].as_ref().unwrap().node].t.values(),
                None => return Err(RErr::Unspecified),
            },
        };
        let reached = self.reached(root);
        let mut entries = Vec::new();
        for i in 0..=root {
            if reached[i].is_none() {
                continue;
            }
            let node = &self.nodes[i];
            let is_user = node.op.map(|o| cfg.ops[o as usize].is_user()).unwrap_or(false);
            if !node.has_graph || !is_user {
                continue;
            }
            let adj = self.adjoint(cfg, root, &seedv, i)?;
            let flags: Vec<bool> = node.edges.iter().map(|e| e.tracked).collect();
            // consumers inside the differentiated graph
            let mut consumers = Vec::new();
            for c in (i + 1)..=root {
                if reached[c].is_some() && self.nodes[c].has_graph && self.nodes[c].edges.iter().any(|e| e.node == i && e.tracked) {
                    let cu = self.nodes[c].op.map(|o| cfg.ops[o as usize].is_user()).unwrap_or(false);
                    if cu {
                        consumers.push(self.nodes[c].tag);
                    }
                }
            }
            entries.push((node.tag, adj, flags, consumers));
        }
        Ok(ExpectedLog { entries })
    }

    /// the slot whose handle is passed (cloned) as the seed for a pass from `root_slot`
    pub fn seed_handle(&self, root_slot: usize) -> Option<usize> {
        let root = self.slots[root_slot].as_ref()?;
        let dims = &self.nodes[root.node].t.dims;
        (0..self.slots.len()).rev().find(|&s| {
            if s == root_slot {
                return false;
            }
            match &self.slots[s] {
                Some(h) => {
                    let n = &self.nodes[h.node];
                    !h.tracked && !n.has_graph && h.node != root.node && &n.t.dims == dims && !n.t.x.iter().any(|d| d.amb)
                }
                None => false,
            }
        })
    }

    fn deposit(&mut self, node: usize, adj: Vec<Du>, reuse: Option<usize>) {
        if let (Some(r), Grad::None) = (reuse, &self.nodes[node].grad) {
            self.nodes[node].grad = Grad::Known { vals: adj, node: r };
            return;
        }
        let dims = self.nodes[node].t.dims.clone();
        let new_vals = match &self.nodes[node].grad {
            Grad::Unknown => {
                return;
            }
            Grad::None => adj,
            Grad::Known { vals, .. } => vals
                .iter()
                .zip(&adj)
                .map(|(p, q)| Du { v: 0.0, d: p.d + q.d, m: 0.0, md: p.md + q.md + (p.d + q.d).abs(), ex: p.ex && q.ex, amb: p.amb || q.amb })
                .collect(),
        };
        // the gradient array as a value: keep the running error bound of the adjoint
        let gx: Vec<Du> = new_vals.iter().map(|d| Du { v: d.d, d: 0.0, m: d.md.max(d.d.abs()), md: 0.0, ex: d.ex, amb: d.amb }).collect();
        let gnode = self.new_plain_node(T::new(dims, gx), true);
        self.nodes[node].grad = Grad::Known { vals: new_vals, node: gnode };
    }

    /// Apply one action. Err(Domain/Unspecified/Refuse) means: this history leaves the compared domain.
    pub fn apply(&mut self, cfg: &MCfg, a: &Act) -> Result<(), RErr> {
        match a {
            Act::Build { op, args, dst } => {
                let opk = &cfg.ops[*op as usize];
                let hs: Vec<RHandle> = args.iter().map(|s| self.slots[*s as usize].clone().unwrap()).collect();
                let ts: Vec<T> = hs.iter().map(|h| self.nodes[h.node].t.strip()).collect();
                let refs: Vec<&T> = ts.iter().collect();
                let t = apply_ref(opk, &refs)?;
                if t.x.iter().any(|d| d.v.abs() > 1.0e12) {
                    return Err(RErr::Domain);
                }
                let has_graph = hs.iter().any(|h| h.tracked);
                let buffer = if matches!(opk, OpK::Reshape(_) | OpK::UIdent) { self.nodes[hs[0].node].buffer } else { self.fresh_buffer() };
                self.nodes.push(RNode {
                    t,
                    op: Some(*op),
                    edges: hs.iter().map(|h| REdge { node: h.node, tracked: h.tracked, keep: h.keep }).collect(),
                    has_graph,
                    grad: Grad::None,
                    buffer,
                    template: false,
                    is_gradient_array: false,
                    tag: self.next_tag,
                });
                let id = self.nodes.len() - 1;
                self.slots[*dst as usize] = Some(RHandle { node: id, tracked: has_graph, keep: has_graph });
            }
            Act::Refused { .. } => {}
            Act::Clone { src, dst } => {
                self.slots[*dst as usize] = self.slots[*src as usize].clone();
            }
            Act::Drop { slot } => {
                self.slots[*slot as usize] = None;
            }
            Act::Flag { slot, kind } => {
                let h = self.slots[*slot as usize].as_mut().unwrap();
                match kind {
                    0 => {
                        h.tracked = true;
                        h.keep = true;
                    }
                    1 => {
                        h.tracked = false;
                        h.keep = false;
                    }
                    2 => h.tracked = true,
                    _ => h.tracked = false,
                }
            }
            Act::Backward { slot, seed } => {
                let h = self.slots[*slot as usize].clone().unwrap();
                let root = h.node;
                let n = self.nodes[root].t.len();
                let seed_slot = if *seed == 3 { self.seed_handle(*slot as usize) } else { None };
                let seedv: Vec<f64> = match seed {
                    0 => vec![1.0; n],
                    1 => crate::prog::seed_vals(n, 1),
                    2 => vec![0.0; n],
                    4 => vec![1.0e-6; n],
                    _ => match seed_slot {
                        Some(s) => self.nodes[self.slots[s].as_ref().unwrap().node].t.values(),
                        None => return Err(RErr::Unspecified),
                    },
                };
                let seed_node = seed_slot.map(|s| self.slots[s].as_ref().unwrap().node);
                let reached = self.reached(root);
                let mut deposits: Vec<(usize, Option<Vec<Du>>)> = Vec::new();
                for i in 0..=root {
                    let keeps = match &reached[i] {
                        None => continue,
                        Some(k) => k,
                    };
                    let node = &self.nodes[i];
                    // The statement fixes where gradients MUST appear (the array the pass is started on,
                    // leaves and results that were tracked when used) and where they MUST NOT (untracked
                    // operands, anything below an untracked intermediate). For a result whose handle was
                    // stripped of its "keep" flag (`.untracked()` then `start_tracking()`), or a root of
                    // that kind, it leaves the choice open: accept either.
                    let stores: Option<bool> = if i == root {
                        if !node.has_graph || h.keep {
                            Some(true)
                        } else {
                            None
                        }
                    } else if !node.has_graph {
                        Some(true)
                    } else if keeps.iter().all(|k| *k) {
                        Some(true)
                    } else {
                        None
                    };
                    match stores {
                        Some(true) => {
                            let adj = self.adjoint(cfg, root, &seedv, i)?;
                            deposits.push((i, Some(adj)));
                        }
                        Some(false) => {}
                        None => deposits.push((i, None)),
                    }
                }
                for (i, adj) in deposits {
                    match adj {
                        // the root stores the caller's seed array itself when its slot is empty
                        Some(a) => self.deposit(i, a, if i == root { seed_node } else { None }),
                        None => self.nodes[i].grad = Grad::Unknown,
                    }
                }
            }
            Act::Clear { slot, .. } => {
                let n = self.slots[*slot as usize].as_ref().unwrap().node;
                self.nodes[n].grad = Grad::None;
            }
            Act::Fetch { slot, dst } | Act::Adopt { slot, dst } => {
                let n = self.slots[*slot as usize].as_ref().unwrap().node;
                let g = match &self.nodes[n].grad {
                    Grad::Known { node, .. } => *node,
                    _ => return Err(RErr::Unspecified),
                };
                if self.nodes[g].t.x.iter().any(|d| d.amb) {
                    // the value depends on ReLU's derivative at 0: not defined by the statement
                    return Err(RErr::Unspecified);
                }
                let adopt = matches!(a, Act::Adopt { .. });
                self.slots[*dst as usize] = Some(RHandle { node: g, tracked: adopt, keep: adopt });
            }
            Act::Update { slots, lr } => {
                let lr = LRS[*lr as usize];
                for s in slots.iter() {
                    let h = self.slots[*s as usize].clone().unwrap();
                    let node = &self.nodes[h.node];
                    match &node.grad {
                        Grad::None => {}
                        Grad::Unknown => return Err(RErr::Unspecified),
                        Grad::Known { vals, .. } => {
                            if vals.iter().any(|d| d.amb) {
                                return Err(RErr::Unspecified);
                            }
                            let newv: Vec<Du> = node
                                .t
                                .x
                                .iter()
                                .zip(vals)
                                .map(|(x, g)| {
                                    let v = x.v - lr * g.d;
                                    Du { v, d: 0.0, m: x.m + lr.abs() * g.md + v.abs(), md: 0.0, ex: x.ex && g.ex && lr.fract() == 0.0, amb: false }
                                })
                                .collect();
                            let dims = node.t.dims.clone();
                            // the consumed gradient slot is emptied on the old node as well
                            let old = h.node;
                            self.nodes[old].grad = Grad::None;
                            let id = self.new_plain_node(T::new(dims, newv), false);
                            self.slots[*s as usize] = Some(RHandle { node: id, tracked: true, keep: true });
                        }
                    }
                }
            }
        }
        Ok(())
    }

    /// nodes kept alive by the live handles (through retained operand edges and stored gradients)
    pub fn live_nodes(&self) -> Vec<bool> {
        let mut live = vec![false; self.nodes.len()];
        let mut stack: Vec<usize> = self.slots.iter().flatten().map(|h| h.node).collect();
        while let Some(n) = stack.pop() {
            if live[n] {
                continue;
            }
            live[n] = true;
            let node = &self.nodes[n];
            if node.has_graph {
                for e in &node.edges {
                    stack.push(e.node);
                }
            }
            if let Grad::Known { node: g, .. } = &node.grad {
                stack.push(*g);
            }
        }
        live
    }

    /// canonical serialisation of everything that can influence the future
    pub fn canon(&self, out: &mut Vec<u8>) {
        let live = self.live_nodes();
        let mut id: Vec<Option<u32>> = vec![None; self.nodes.len()];
        let mut next = 0u32;
        for (i, l) in live.iter().enumerate() {
            if *l {
                id[i] = Some(next);
                next += 1;
            }
        }
        let mut bufmap: HashMap<usize, u32> = HashMap::new();
        for s in &self.slots {
            match s {
                None => out.push(0xff),
                Some(h) => {
                    out.extend_from_slice(&id[h.node].unwrap().to_le_bytes());
                    out.push(h.tracked as u8 | ((h.keep as u8) << 1));
                }
            }
        }
        for (i, n) in self.nodes.iter().enumerate() {
            if !live[i] {
                continue;
            }
            out.push(0xfe);
            out.push(n.op.map(|o| o + 1).unwrap_or(0));
            out.push(n.has_graph as u8);
            let nb = bufmap.len() as u32;
            let b = *bufmap.entry(n.buffer).or_insert(nb);
            out.extend_from_slice(&b.to_le_bytes());
            for d in &n.t.dims {
                out.push(*d as u8);
            }
            out.push(0xfd);
            for v in &n.t.x {
                out.extend_from_slice(&v.v.to_bits().to_le_bytes());
            }
            if n.has_graph {
                for e in &n.edges {
                    out.extend_from_slice(&id[e.node].unwrap().to_le_bytes());
                    out.push(e.tracked as u8 | ((e.keep as u8) << 1));
                }
            }
            match &n.grad {
                Grad::None => out.push(0),
                Grad::Unknown => out.push(2),
                Grad::Known { vals, node } => {
                    out.push(1);
                    out.extend_from_slice(&id[*node].unwrap().to_le_bytes());
                    for v in vals {
                        out.extend_from_slice(&v.d.to_bits().to_le_bytes());
                    }
                }
            }
        }
    }

    /// template leaves in slots that are entitled to sole ownership of their buffer
    pub fn entitled(&self) -> Vec<(usize, bool)> {
        let mut out = Vec::new();
        for (si, s) in self.slots.iter().enumerate() {
            let h = match s {
                Some(h) => h,
                None => continue,
            };
            if !self.nodes[h.node].template {
                continue;
            }
            let buf = self.nodes[h.node].buffer;
            let mut shared = false;
            // another handle of the same node, or anything alive (other than through this handle) holding the buffer
            for (sj, o) in self.slots.iter().enumerate() {
                if sj == si {
                    continue;
                }
                if let Some(o) = o {
                    let mut stack = vec![o.node];
                    let mut seen = vec![false; self.nodes.len()];
                    while let Some(n) = stack.pop() {
                        if seen[n] {
                            continue;
                        }
                        seen[n] = true;
                        if self.nodes[n].buffer == buf {
                            shared = true;
                        }
                        if self.nodes[n].has_graph {
                            for e in &self.nodes[n].edges {
                                stack.push(e.node);
                            }
                        }
                        if let Grad::Known { node: g, .. } = &self.nodes[n].grad {
                            stack.push(*g);
                        }
                    }
                }
            }
            // the leaf's own stored gradient (and what it keeps alive) must not hold the buffer either
            if let Grad::Known { node: g, .. } = &self.nodes[h.node].grad {
                if self.nodes[*g].buffer == buf {
                    shared = true;
                }
            }
            out.push((si, !shared));
        }
        out
    }
}

// ---------------------------------------------------------------------------------------------
// implementation world
// ---------------------------------------------------------------------------------------------

pub struct IWorld {
    pub slots: Vec<Option<Array>>,
}

fn handle_flag(a: &Array) -> bool {
    let t = a.stop_tracking();
    if t {
        a.start_tracking();
    }
    t
}

impl IWorld {
    pub fn new(cfg: &MCfg) -> IWorld {
        let mut slots: Vec<Option<Array>> = (0..cfg.nslots).map(|_| None).collect();
        for (i, l) in cfg.leaves.iter().enumerate() {
            let a = arr(&l.dims, &l.vals);
            slots[i] = Some(if l.tracked { a.tracked() } else { a });
        }
        IWorld { slots }
    }

    pub fn apply(&mut self, cfg: &MCfg, a: &Act, tag: usize, seed_slot: Option<usize>) {
        match a {
            Act::Build { op, args, dst } => {
                let r = {
                    let refs: Vec<&Array> = args.iter().map(|s| self.slots[*s as usize].as_ref().unwrap()).collect();
                    apply_impl(&cfg.ops[*op as usize], &refs, tag)
                };
                self.slots[*dst as usize] = Some(r);
            }
            Act::Refused { op, args } => {
                let refused = {
                    let refs: Vec<&Array> = args.iter().map(|s| self.slots[*s as usize].as_ref().unwrap()).collect();
                    run_catch(|| apply_impl(&cfg.ops[*op as usize], &refs, tag).dimensions().to_vec())
                };
                if let Ok(d) = refused {
                    panic!("an operation on inadmissible operands returned a result of dimensions {:?} instead of refusing", d);
                }
            }
            Act::Clone { src, dst } => {
                let c = self.slots[*src as usize].as_ref().unwrap().clone();
                self.slots[*dst as usize] = Some(c);
            }
            Act::Drop { slot } => {
                self.slots[*slot as usize] = None;
            }
            Act::Flag { slot, kind } => match kind {
                0 => {
                    let h = self.slots[*slot as usize].take().unwrap();
                    self.slots[*slot as usize] = Some(h.tracked());
                }
                1 => {
                    let h = self.slots[*slot as usize].take().unwrap();
                    self.slots[*slot as usize] = Some(h.untracked());
                }
                2 => {
                    self.slots[*slot as usize].as_ref().unwrap().start_tracking();
                }
                _ => {
                    self.slots[*slot as usize].as_ref().unwrap().stop_tracking();
                }
            },
            Act::Backward { slot, seed } => {
                let h = self.slots[*slot as usize].as_ref().unwrap();
                let n = h.values().len();
                let s = match seed {
                    0 => None,
                    1 => Some(arr(h.dimensions(), &crate::prog::seed_vals(n, 1))),
                    2 => Some(arr(h.dimensions(), &vec![0.0; n])),
                    4 => Some(arr(h.dimensions(), &vec![1.0e-6; n])),
                    _ => Some(self.slots[seed_slot.expect("seed handle")].as_ref().unwrap().clone()),
                };
                h.backward(s);
            }
            Act::Clear { slot, via } => {
                let h = self.slots[*slot as usize].as_ref().unwrap();
                if *via == 0 {
                    let _ = h.replace_gradient();
                } else {
                    *h.gradient_mut() = None;
                }
            }
            Act::Fetch { slot, dst } => {
                let g = self.slots[*slot as usize].as_ref().unwrap().gradient().clone().unwrap();
                self.slots[*dst as usize] = Some(g);
            }
            Act::Adopt { slot, dst } => {
                let g = self.slots[*slot as usize].as_ref().unwrap().gradient().clone().unwrap();
                self.slots[*dst as usize] = Some(g.tracked());
            }
            Act::Update { slots, lr } => {
                let gd = GradientDescent::new(LRS[*lr as usize] as Float);
                let mut taken: Vec<(u8, Array)> = slots.iter().map(|s| (*s, self.slots[*s as usize].take().unwrap())).collect();
                {
                    let params: Vec<&mut Array> = taken.iter_mut().map(|(_, a)| a).collect();
                    gd.update(params);
                }
                for (s, a) in taken {
                    self.slots[s as usize] = Some(a);
                }
            }
        }
    }

    pub fn observe(&self) -> Vec<Option<Obs>> {
        self.slots
            .iter()
            .map(|s| {
                s.as_ref().map(|a| Obs {
                    dims: a.dimensions().to_vec(),
                    vals: a.values().to_vec(),
                    tracked: handle_flag(a),
                    grad: a.gradient().as_ref().map(|g| (g.dimensions().to_vec(), g.values().to_vec(), handle_flag(g))),
                })
            })
            .collect()
    }

    /// canonical serialisation of the hidden bookkeeping reachable from the live handles
    pub fn probe_canon(&self, out: &mut Vec<u8>) {
        let mut ids: HashMap<usize, u32> = HashMap::new();
        let mut bufs: HashMap<usize, u32> = HashMap::new();
        fn ser(p: &VerifProbe, ids: &mut HashMap<usize, u32>, bufs: &mut HashMap<usize, u32>, out: &mut Vec<u8>) {
            let n = ids.len() as u32;
            let first = !ids.contains_key(&p.node);
            let id = *ids.entry(p.node).or_insert(n);
            let nb = bufs.len() as u32;
            let b = *bufs.entry(p.buffer).or_insert(nb);
            out.extend_from_slice(&id.to_le_bytes());
            out.extend_from_slice(&b.to_le_bytes());
            out.push(p.is_tracked as u8 | ((p.keep_gradient as u8) << 1) | ((p.has_delta as u8) << 2) | ((p.has_gradient as u8) << 3) | ((p.has_backward_op as u8) << 4));
            out.extend_from_slice(&(p.consumer_count as u32).to_le_bytes());
            if first {
                out.push(p.children.len() as u8);
                for c in &p.children {
                    ser(c, ids, bufs, out);
                }
            }
        }
        for s in &self.slots {
            match s {
                None => out.push(0xff),
                Some(a) => {
                    out.push(0xfe);
                    ser(&a.verif_probe(), &mut ids, &mut bufs, out);
                    if let Some(g) = a.gradient().as_ref() {
                        out.push(0xfd);
                        ser(&g.verif_probe(), &mut ids, &mut bufs, out);
                    }
                }
            }
        }
    }
}

#[derive(Clone, Debug, PartialEq)]
pub struct Obs {
    pub dims: Vec<usize>,
    pub vals: Vec<Float>,
    pub tracked: bool,
    pub grad: Option<(Vec<usize>, Vec<Float>, bool)>,
}

// ---------------------------------------------------------------------------------------------
// replaying a history and checking the last step
// ---------------------------------------------------------------------------------------------

pub struct Replayed {
    /// 128-bit hash of the canonical (reference state, probe) serialisation; (0,0) when unmerged
    pub key: (u64, u64),
    pub digest: u64,
}

fn hash128(bytes: &[u8]) -> (u64, u64) {
    let mut a = 0xcbf29ce484222325u64;
    let mut b = 0x9e3779b97f4a7c15u64;
    for x in bytes {
        a ^= *x as u64;
        a = a.wrapping_mul(0x100000001b3);
        b = (b ^ (*x as u64)).wrapping_mul(0xff51afd7ed558ccd);
        b ^= b >> 29;
    }
    (a, b | 1)
}

pub enum StepResult {
    Ok(Replayed),
    /// the history leaves the compared domain (reference says so): not a state
    OutOfDomain,
    Violation { sub: String, detail: String },
}

fn compare_obs(cfg: &MCfg, rw: &RWorld, obs: &[Option<Obs>]) -> Result<(), (String, String)> {
    for (i, (o, r)) in obs.iter().zip(&rw.slots).enumerate() {
        match (o, r) {
            (None, None) => {}
            (Some(o), Some(r)) => {
                let n = &rw.nodes[r.node];
                if o.dims != n.t.dims {
                    return Err(("value".into(), format!("h{}: dimensions {:?}, reference {:?}", i, o.dims, n.t.dims)));
                }
                let part = if n.is_gradient_array { Part::Value } else { Part::Value };
                if let Err(e) = cmp_slice(&o.vals, &n.t.x, part) {
                    return Err(("value".into(), format!("h{}: {}", i, e)));
                }
                if o.tracked != r.tracked {
                    return Err(("flag".into(), format!("h{}: tracking flag is {}, reference {}", i, o.tracked, r.tracked)));
                }
                match (&o.grad, &n.grad) {
                    (_, Grad::Unknown) => {}
                    (None, Grad::None) => {}
                    (Some(g), Grad::None) => {
                        return Err(("gradient-presence".into(), format!("h{} must hold no gradient but holds {:?} {}", i, g.0, fmt_vals(&g.1))));
                    }
                    (None, Grad::Known { vals, .. }) => {
                        return Err((
                            "gradient-presence".into(),
                            format!("h{} holds no gradient, reference {:?}", i, vals.iter().map(|d| d.d).collect::<Vec<_>>()),
                        ));
                    }
                    (Some(g), Grad::Known { vals, .. }) => {
                        if g.0 != n.t.dims {
                            return Err(("gradient-shape".into(), format!("h{}: gradient dimensions {:?}, array {:?}", i, g.0, n.t.dims)));
                        }
                        if let Err(e) = cmp_slice(&g.1, vals, Part::Tangent) {
                            return Err((
                                "gradient-value".into(),
                                format!("h{}: {}; got {} reference {:?}", i, e, fmt_vals(&g.1), vals.iter().map(|d| d.d).collect::<Vec<_>>()),
                            ));
                        }
                        if g.2 {
                            return Err(("flag".into(), format!("h{}: the stored gradient is a tracked array", i)));
                        }
                    }
                }
            }
            _ => return Err(("machinery".into(), format!("slot {} occupancy differs", i))),
        }
    }
    let _ = cfg;
    Ok(())
}

/// Replay `hist` on both worlds; check the oracles for the last action.
pub fn replay(cfg: &MCfg, hist: &[Act]) -> StepResult {
    // reference first: it decides whether the history is inside the domain
    let mut rw = RWorld::new(cfg);
    let mut seed_slots: Vec<Option<usize>> = Vec::with_capacity(hist.len());
    let mut expected_log: Option<ExpectedLog> = None;
    for (k, a) in hist.iter().enumerate() {
        seed_slots.push(match a {
            Act::Backward { slot, seed: 3 } => rw.seed_handle(*slot as usize),
            _ => None,
        });
        if cfg.check_log && k + 1 == hist.len() {
            if let Act::Backward { slot, seed } = a {
                match rw.expected_log(cfg, *slot as usize, *seed) {
                    Ok(e) => expected_log = Some(e),
                    Err(_) => return StepResult::OutOfDomain,
                }
            }
        }
        rw.next_tag = 100 + k;
        if rw.apply(cfg, a).is_err() {
            return StepResult::OutOfDomain;
        }
    }
    let res = run_catch(|| {
        let mut iw = IWorld::new(cfg);
        let mut before: Vec<Option<Obs>> = Vec::new();
        let mut log: Vec<LogEntry> = Vec::new();
        for (k, a) in hist.iter().enumerate() {
            if k + 1 == hist.len() {
                before = iw.observe();
                let _ = take_user_log();
            }
            iw.apply(cfg, a, 100 + k, seed_slots[k]);
            if k + 1 == hist.len() {
                log = take_user_log();
            }
        }
        let after = iw.observe();
        let mut probe = Vec::new();
        iw.probe_canon(&mut probe);
        // ownership probes consume handles: do them last
        let mut own: Vec<(usize, bool, bool)> = Vec::new();
        if cfg.check_ownership {
            for (slot, entitled) in rw.entitled() {
                if entitled {
                    let a = iw.slots[slot].take().unwrap();
                    let ok = run_catch(move || Vec::<Float>::from(a).len()).is_ok();
                    own.push((slot, true, ok));
                }
            }
            for (slot, entitled) in rw.entitled() {
                if !entitled {
                    if let Some(a) = iw.slots[slot].take() {
                        let ok = run_catch(move || Vec::<Float>::from(a).len()).is_ok();
                        own.push((slot, false, ok));
                    }
                }
            }
        }
        (before, after, probe, own, log)
    });
    let (before, after, probe, own, log) = match res {
        Ok(x) => x,
        Err(msg) => {
            let _ = take_user_log();
            return StepResult::Violation { sub: "panic".into(), detail: format!("the last action panicked: {}", msg) };
        }
    };
    let _ = take_user_log();
    if let Some(exp) = &expected_log {
        let order: Vec<usize> = log.iter().map(|e| e.tag).collect();
        for e in &log {
            if order.iter().filter(|t| **t == e.tag).count() > 1 {
                return StepResult::Violation { sub: "log".into(), detail: format!("derivative of the node built by action {} invoked more than once in one pass (log order {:?})", e.tag - 100, order) };
            }
            if !exp.entries.iter().any(|x| x.0 == e.tag) {
                return StepResult::Violation { sub: "log".into(), detail: format!("derivative of the node built by action {} invoked although it is not in the differentiated graph (log order {:?})", e.tag - 100, order) };
            }
        }
        for (tag, adj, flags, consumers) in &exp.entries {
            let pos = match order.iter().position(|t| t == tag) {
                Some(p) => p,
                None => {
                    return StepResult::Violation { sub: "log".into(), detail: format!("derivative of the node built by action {} (in the differentiated graph) was never invoked (log order {:?})", tag - 100, order) };
                }
            };
            let e = &log[pos];
            if let Err(msg) = cmp_slice(&e.delta, adj, Part::Tangent) {
                return StepResult::Violation { sub: "log".into(), detail: format!("the node built by action {} received a partial or wrong adjoint: {}; got {}", tag - 100, msg, fmt_vals(&e.delta)) };
            }
            if &e.tracked != flags {
                return StepResult::Violation { sub: "log".into(), detail: format!("the node built by action {}: closure was told operands tracked={:?}, expected {:?}", tag - 100, e.tracked, flags) };
            }
            for c in consumers {
                if let Some(cp) = order.iter().position(|t| t == c) {
                    if cp > pos {
                        return StepResult::Violation { sub: "log".into(), detail: format!("the node built by action {} was processed before its consumer built by action {}", tag - 100, c - 100) };
                    }
                }
            }
        }
    }
    if cfg.check_ref {
        if let Err((sub, detail)) = compare_obs(cfg, &rw, &after) {
            return StepResult::Violation { sub, detail };
        }
    }
    if cfg.check_snapshot && !hist.is_empty() {
        // every handle that existed before the action and was not itself re-bound keeps its bits
        let rebound: Vec<usize> = match hist.last().unwrap() {
            Act::Build { dst, .. } | Act::Clone { dst, .. } | Act::Fetch { dst, .. } | Act::Adopt { dst, .. } => vec![*dst as usize],
            Act::Drop { slot } => vec![*slot as usize],
            Act::Update { slots, .. } => slots.iter().map(|s| *s as usize).collect(),
            _ => vec![],
        };
        for (i, (b, a)) in before.iter().zip(&after).enumerate() {
            if rebound.contains(&i) {
                continue;
            }
            if let (Some(b), Some(a)) = (b, a) {
                if b.dims != a.dims || b.vals.len() != a.vals.len() || b.vals.iter().zip(&a.vals).any(|(x, y)| x.to_bits() != y.to_bits()) {
                    return StepResult::Violation {
                        sub: "immutability".into(),
                        detail: format!("h{} changed from {:?} {} to {:?} {}", i, b.dims, fmt_vals(&b.vals), a.dims, fmt_vals(&a.vals)),
                    };
                }
            }
        }
        // every handle still shows the values it was created with (catches gradual drift)
        for (i, (o, r)) in after.iter().zip(&rw.slots).enumerate() {
            if let (Some(o), Some(r)) = (o, r) {
                let n = &rw.nodes[r.node];
                if o.dims != n.t.dims || cmp_slice(&o.vals, &n.t.x, Part::Value).is_err() {
                    return StepResult::Violation {
                        sub: "immutability".into(),
                        detail: format!("h{} no longer shows the dimensions/values it was created with: {:?} {}", i, o.dims, fmt_vals(&o.vals)),
                    };
                }
            }
        }
    }
    if cfg.check_ownership {
        for (slot, entitled, ok) in &own {
            if *entitled && !*ok {
                return StepResult::Violation {
                    sub: "ownership".into(),
                    detail: format!("h{} should be the sole owner of its buffer (nothing alive derives from it) but Vec::from(h{}) panicked", slot, slot),
                };
            }
        }
    }
    if cfg.check_fresh_diff {
        if let Some(Act::Backward { .. }) = hist.last() {
            if let Some(v) = fresh_diff(cfg, hist, &before, &after) {
                return v;
            }
        }
    }
    let mut canon = Vec::new();
    if cfg.merged {
        rw.canon(&mut canon);
        canon.push(0xfc);
        canon.extend_from_slice(&probe);
    }
    let mut h = 0xcbf29ce484222325u64;
    for o in after.iter().flatten() {
        fnv(&mut h, &digest_vals(&o.dims, &o.vals).to_le_bytes());
        if let Some(g) = &o.grad {
            fnv(&mut h, &digest_vals(&g.0, &g.1).to_le_bytes());
        }
    }
    for (_, e, ok) in &own {
        fnv(&mut h, &[*e as u8, *ok as u8]);
    }
    let key = if cfg.merged { hash128(&canon) } else { (0, 0) };
    StepResult::Ok(Replayed { key, digest: h })
}

/// C10's differential oracle: the increment this pass adds equals what the same pass deposits when
/// no earlier pass, clear, fetch or update ever happened (same construction, flags, clones, drops).
fn fresh_diff(cfg: &MCfg, hist: &[Act], before: &[Option<Obs>], after: &[Option<Obs>]) -> Option<StepResult> {
    if hist.iter().any(|a| matches!(a, Act::Fetch { .. } | Act::Adopt { .. } | Act::Update { .. })) {
        return None;
    }
    let last = hist.len() - 1;
    let stripped: Vec<Act> = hist
        .iter()
        .enumerate()
        .filter(|(k, a)| *k == last || !matches!(a, Act::Backward { .. } | Act::Clear { .. }))
        .map(|(_, a)| a.clone())
        .collect();
    if stripped.len() == hist.len() {
        return None;
    }
    if stripped.iter().any(|a| matches!(a, Act::Backward { seed: 3, .. })) {
        return None;
    }
    let fresh = run_catch(|| {
        let mut iw = IWorld::new(cfg);
        for (k, a) in stripped.iter().enumerate() {
            iw.apply(cfg, a, 100 + k, None);
        }
        iw.observe()
    });
    let _ = take_user_log();
    let fresh = match fresh {
        Ok(f) => f,
        Err(m) => return Some(StepResult::Violation { sub: "fresh-diff".into(), detail: format!("the pass on a freshly built copy panicked: {}", m) }),
    };
    for i in 0..after.len() {
        if let (Some(a), Some(f)) = (&after[i], &fresh[i]) {
            let inc: Option<Vec<f64>> = match (&before[i].as_ref().and_then(|b| b.grad.clone()), &a.grad) {
                (None, None) => None,
                (None, Some(g)) => Some(g.1.iter().map(|x| *x as f64).collect()),
                (Some(b), Some(g)) => {
                    if b.1.len() != g.1.len() {
                        return Some(StepResult::Violation { sub: "fresh-diff".into(), detail: format!("h{}: gradient changed length", i) });
                    }
                    Some(g.1.iter().zip(&b.1).map(|(x, y)| *x as f64 - *y as f64).collect())
                }
                (Some(_), None) => {
                    return Some(StepResult::Violation { sub: "fresh-diff".into(), detail: format!("h{}: a pass removed a stored gradient", i) });
                }
            };
            let fr: Option<Vec<f64>> = f.grad.as_ref().map(|g| g.1.iter().map(|x| *x as f64).collect());
            match (inc, fr) {
                (None, None) => {}
                (Some(inc), Some(fr)) => {
                    let scale: f64 = a.grad.as_ref().unwrap().1.iter().map(|x| (*x as f64).abs()).fold(1.0, f64::max)
                        + before[i].as_ref().and_then(|b| b.grad.as_ref()).map(|g| g.1.iter().map(|x| (*x as f64).abs()).fold(0.0, f64::max)).unwrap_or(0.0);
                    if inc.len() != fr.len() || inc.iter().zip(&fr).any(|(x, y)| (x - y).abs() > tau() * 64.0 * scale) {
                        return Some(StepResult::Violation {
                            sub: "fresh-diff".into(),
                            detail: format!("h{}: this pass added {:?} after the history, but deposits {:?} on a freshly built copy of the graph", i, inc, fr),
                        });
                    }
                }
                (Some(inc), None) => {
                    if inc.iter().any(|x| *x != 0.0) || before[i].as_ref().map(|b| b.grad.is_none()).unwrap_or(true) {
                        return Some(StepResult::Violation {
                            sub: "fresh-diff".into(),
                            detail: format!("h{}: this pass added {:?} after the history, but deposits nothing on a freshly built copy", i, inc),
                        });
                    }
                }
                (None, Some(fr)) => {
                    return Some(StepResult::Violation {
                        sub: "fresh-diff".into(),
                        detail: format!("h{}: this pass deposits {:?} on a freshly built copy but nothing after the history", i, fr),
                    });
                }
            }
        }
    }
    None
}

// ---------------------------------------------------------------------------------------------
// the stateright model
// ---------------------------------------------------------------------------------------------

#[derive(Clone, Debug)]
pub struct MState {
    pub hist: Vec<Act>,
    /// hash of the canonical state when states are merged, (0,0) when the history is the state
    pub key: (u64, u64),
    pub used: [u8; 10],
}

impl PartialEq for MState {
    fn eq(&self, o: &MState) -> bool {
        if self.key == (0, 0) && o.key == (0, 0) {
            self.hist == o.hist
        } else {
            self.key == o.key && self.used == o.used
        }
    }
}
impl Eq for MState {}
impl Hash for MState {
    fn hash<H: Hasher>(&self, h: &mut H) {
        if self.key == (0, 0) {
            self.hist.hash(h);
        } else {
            self.key.hash(h);
            self.used.hash(h);
        }
    }
}

pub struct Shared {
    pub violations: Mutex<Vec<Violation>>,
    pub violation_count: std::sync::atomic::AtomicU64,
    pub out_of_domain: std::sync::atomic::AtomicU64,
    pub executed: std::sync::atomic::AtomicU64,
    pub outcomes: Vec<Mutex<std::collections::HashSet<u64>>>,
    pub samples: Mutex<Vec<String>>,
    pub depth_hist: Vec<std::sync::atomic::AtomicU64>,
    pub only: Option<String>,
}

pub struct Machine {
    pub cfg: MCfg,
    pub shared: std::sync::Arc<Shared>,
}

fn used_index(a: &Act) -> usize {
    match a {
        Act::Build { .. } => 0,
        Act::Backward { .. } => 1,
        Act::Clear { .. } => 2,
        Act::Drop { .. } => 3,
        Act::Clone { .. } => 4,
        Act::Flag { .. } => 5,
        Act::Fetch { .. } => 6,
        Act::Adopt { .. } => 7,
        Act::Update { .. } => 8,
        Act::Refused { .. } => 9,
    }
}

impl Machine {
    fn budget(&self) -> [u8; 10] {
        let b = &self.cfg.bounds;
        [b.builds, b.passes, b.clears, b.drops, b.clones, b.flags, b.fetches, b.adopts, b.updates, b.refusals]
    }

    /// the enabled actions, simplest first
    pub fn enabled(&self, st: &MState) -> Vec<Act> {
        let cfg = &self.cfg;
        let mut out = Vec::new();
        if st.hist.len() >= cfg.bounds.depth as usize {
            return out;
        }
        // the reference world tells which slots are live and which hold gradients
        let mut rw = RWorld::new(cfg);
        for a in &st.hist {
            if rw.apply(cfg, a).is_err() {
                return out;
            }
        }
        let budget = self.budget();
        let live: Vec<u8> = (0..cfg.nslots as u8).filter(|s| rw.slots[*s as usize].is_some()).collect();
        let free: Option<u8> = (0..cfg.nslots as u8).find(|s| rw.slots[*s as usize].is_none());
        let nleaf = cfg.leaves.len() as u8;
        let left = |i: usize| st.used[i] < budget[i];
        if left(0) {
            for (oi, op) in cfg.ops.iter().enumerate() {
                let ar = op.arity();
                let total = live.len().pow(ar as u32);
                for mut code in 0..total {
                    let mut args = Vec::with_capacity(ar);
                    for _ in 0..ar {
                        args.push(live[code % live.len()]);
                        code /= live.len();
                    }
                    args.reverse();
                    // inadmissible or out-of-domain operand combinations are not part of this machine
                    {
                        let ts: Vec<T> = args.iter().map(|s| rw.nodes[rw.slots[*s as usize].as_ref().unwrap().node].t.strip()).collect();
                        let refs: Vec<&T> = ts.iter().collect();
                        match apply_ref(op, &refs) {
                            Ok(_) => {}
                            Err(e) => {
                                if e == RErr::Refuse && left(9) {
                                    // executed after all: the call must panic and leave no trace
                                    out.push(Act::Refused { op: oi as u8, args: Args::from_slice(&args) });
                                    continue;
                                }
                                // counted: what a machine leaves out is where something can hide
                                let c = match e {
                                    RErr::Refuse => &FILTERED_BUILDS[0],
                                    RErr::Domain => &FILTERED_BUILDS[1],
                                    RErr::Unspecified => &FILTERED_BUILDS[2],
                                };
                                c.fetch_add(1, std::sync::atomic::Ordering::Relaxed);
                                continue;
                            }
                        }
                    }
                    let mut dsts: Vec<u8> = Vec::new();
                    if let Some(f) = free {
                        dsts.push(f);
                    }
                    if cfg.rebind {
                        for a in &args {
                            if !dsts.contains(a) && (*a >= nleaf || cfg.touch_leaves) {
                                dsts.push(*a);
                            }
                        }
                    }
                    for d in dsts {
                        out.push(Act::Build { op: oi as u8, args: Args::from_slice(&args), dst: d });
                    }
                }
            }
        }
        if left(1) {
            for &s in &live {
                for &seed in &cfg.seeds {
                    if seed == 3 && rw.seed_handle(s as usize).is_none() {
                        continue;
                    }
                    out.push(Act::Backward { slot: s, seed });
                }
            }
        }
        if left(2) {
            for &s in &live {
                let n = rw.slots[s as usize].as_ref().unwrap().node;
                if matches!(rw.nodes[n].grad, Grad::Known { .. }) {
                    // clearing through one handle of a node is enough (clones share the slot): use the first
                    let first = live.iter().find(|t| rw.slots[**t as usize].as_ref().unwrap().node == n).unwrap();
                    if *first == s || true {
                        for &via in &cfg.clear_vias {
                            out.push(Act::Clear { slot: s, via });
                        }
                    }
                }
            }
        }
        if left(3) {
            for &s in &live {
                if s >= nleaf || cfg.touch_leaves {
                    out.push(Act::Drop { slot: s });
                }
            }
        }
        if left(4) {
            if let Some(f) = free {
                for &s in &live {
                    out.push(Act::Clone { src: s, dst: f });
                }
            }
        }
        if left(5) {
            for &s in &live {
                if s >= nleaf || cfg.touch_leaves {
                    for &k in &cfg.flag_kinds {
                        out.push(Act::Flag { slot: s, kind: k });
                    }
                }
            }
        }
        if left(6) || left(7) {
            if let Some(f) = free {
                for &s in &live {
                    let n = rw.slots[s as usize].as_ref().unwrap().node;
                    if matches!(rw.nodes[n].grad, Grad::Known { .. }) {
                        if left(6) {
                            out.push(Act::Fetch { slot: s, dst: f });
                        }
                        if left(7) {
                            out.push(Act::Adopt { slot: s, dst: f });
                        }
                    }
                }
            }
        }
        if left(8) {
            let cands: Vec<u8> = cfg.update_slots.iter().cloned().filter(|s| rw.slots[*s as usize].is_some()).collect();
            // distinct nodes only: the optimizer takes each parameter once
            for m in 1u32..(1 << cands.len()) {
                let slots: Vec<u8> = cands.iter().enumerate().filter(|(i, _)| m & (1 << i) != 0).map(|(_, s)| *s).collect();
                let mut nodes: Vec<usize> = slots.iter().map(|s| rw.slots[*s as usize].as_ref().unwrap().node).collect();
                nodes.sort();
                nodes.dedup();
                if nodes.len() != slots.len() {
                    continue;
                }
                if !slots.iter().any(|s| matches!(rw.nodes[rw.slots[*s as usize].as_ref().unwrap().node].grad, Grad::Known { .. })) {
                    continue;
                }
                for lr in 0..LRS.len() as u8 {
                    out.push(Act::Update { slots: Args::from_slice(&slots), lr });
                }
            }
        }
        out
    }

    pub fn step(&self, st: &MState, a: Act) -> Option<MState> {
        let mut hist = st.hist.clone();
        hist.push(a.clone());
        if let Some(only) = &self.shared.only {
            // replay mode: follow exactly the prefixes of the requested history
            let me = fmt_hist(&self.cfg, &hist);
            if !only.starts_with(&me) {
                return None;
            }
        }
        self.shared.executed.fetch_add(1, std::sync::atomic::Ordering::Relaxed);
        match replay(&self.cfg, &hist) {
            StepResult::OutOfDomain => {
                self.shared.out_of_domain.fetch_add(1, std::sync::atomic::Ordering::Relaxed);
                None
            }
            StepResult::Violation { sub, detail } => {
                self.shared.violation_count.fetch_add(1, std::sync::atomic::Ordering::Relaxed);
                let mut v = self.shared.violations.lock().unwrap();
                if v.len() < MAX_STORED_VIOLATIONS {
                    v.push(Violation { sub: format!("{}/{}", self.cfg.name, sub), case: fmt_hist(&self.cfg, &hist), detail });
                }
                None
            }
            StepResult::Ok(r) => {
                {
                    let shard = &self.shared.outcomes[(r.digest % 64) as usize];
                    let mut o = shard.lock().unwrap();
                    if o.len() < (1 << 15) {
                        o.insert(r.digest);
                    }
                }
                self.shared.depth_hist[hist.len().min(31)].fetch_add(1, std::sync::atomic::Ordering::Relaxed);
                {
                    let n = self.shared.executed.load(std::sync::atomic::Ordering::Relaxed);
                    // a few early histories, then one whenever a new depth is first reached
                    let first_at_depth = self.shared.depth_hist[hist.len().min(31)].load(std::sync::atomic::Ordering::Relaxed) == 1;
                    if (n.is_power_of_two() && n < 64) || first_at_depth || n % 5_000_011 == 0 {
                        let mut s = self.shared.samples.lock().unwrap();
                        if s.len() < 16 {
                            s.push(fmt_hist(&self.cfg, &hist));
                        }
                    }
                }
                let mut used = st.used;
                used[used_index(&a)] += 1;
                Some(MState { hist, key: r.key, used })
            }
        }
    }
}

impl stateright::Model for Machine {
    type State = MState;
    type Action = Act;

    fn init_states(&self) -> Vec<MState> {
        match replay(&self.cfg, &[]) {
            StepResult::Ok(r) => vec![MState { hist: vec![], key: r.key, used: [0; 10] }],
            _ => machinery_error("the initial state of a machine does not replay"),
        }
    }
    fn actions(&self, st: &MState, out: &mut Vec<Act>) {
        out.extend(self.enabled(st));
    }
    fn next_state(&self, st: &MState, a: Act) -> Option<MState> {
        self.step(st, a)
    }
    fn properties(&self) -> Vec<stateright::Property<Self>> {
        // violations are collected in the side table (every one must be classified), so the
        // checker's own property never fails and the whole bounded space is explored
        vec![stateright::Property::always("explore", |_, _| true)]
    }
}

pub struct MachineRun {
    pub states: u64,
    pub transitions: u64,
    pub executed: u64,
    pub out_of_domain: u64,
    pub max_depth: usize,
    pub depth_hist: Vec<u64>,
}

/// Run one machine to exhaustion of its bounded space with stateright's parallel BFS.
pub fn run_machine(opts: &Opts, cfg: MCfg, total: &mut Local) -> MachineRun {
    use stateright::{Checker, Model};
    let shared = std::sync::Arc::new(Shared {
        violations: Mutex::new(Vec::new()),
        violation_count: std::sync::atomic::AtomicU64::new(0),
        out_of_domain: std::sync::atomic::AtomicU64::new(0),
        executed: std::sync::atomic::AtomicU64::new(0),
        outcomes: (0..64).map(|_| Mutex::new(std::collections::HashSet::new())).collect(),
        samples: Mutex::new(Vec::new()),
        depth_hist: (0..32).map(|_| std::sync::atomic::AtomicU64::new(0)).collect(),
        only: opts.only.clone(),
    });
    let m = Machine { cfg: cfg.clone(), shared: shared.clone() };
    let checker = m.checker().threads(opts.threads.max(1)).spawn_bfs().join();
    let states = checker.unique_state_count() as u64;
    let generated = checker.state_count() as u64;
    let max_depth = checker.max_depth();
    let executed = shared.executed.load(std::sync::atomic::Ordering::Relaxed);
    total.states += states;
    total.transitions += executed.max(generated);
    total.validated += executed;
    total.violation_count += shared.violation_count.load(std::sync::atomic::Ordering::Relaxed);
    {
        let mut v = shared.violations.lock().unwrap();
        for x in v.drain(..) {
            if total.violations.len() < MAX_STORED_VIOLATIONS {
                total.violations.push(x);
            }
        }
    }
    for shard in shared.outcomes.iter() {
        for d in shard.lock().unwrap().iter() {
            total.outcome(*d);
        }
    }
    for s in shared.samples.lock().unwrap().iter() {
        if total.samples.len() < 40 {
            total.samples.push(s.clone());
        }
    }
    let ood = shared.out_of_domain.load(std::sync::atomic::Ordering::Relaxed);
    total.count_n(&format!("{}:histories_out_of_domain", cfg.name), ood);
    let mut depth_hist: Vec<u64> = shared.depth_hist.iter().map(|a| a.load(std::sync::atomic::Ordering::Relaxed)).collect();
    while depth_hist.len() > 1 && *depth_hist.last().unwrap() == 0 {
        depth_hist.pop();
    }
    MachineRun { states, transitions: generated, executed, out_of_domain: ood, max_depth, depth_hist }
}
