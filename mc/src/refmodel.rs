//! The reference model R: a small, boring tensor library written from index definitions.
//!
//! It shares no code and no iteration scheme with corgi (no slicing, no odometer, no im2col).
//! Every scalar is a dual number (value + tangent) with two running first-order error bounds
//! (`m` for the value, `md` for the tangent), an "integer-exact" flag and an "ambiguous" flag
//! (ReLU derivative at exactly zero).

#![allow(dead_code)]

#[derive(Clone, Copy, Debug, PartialEq)]
pub struct Du {
    pub v: f64,
    pub d: f64,
    /// running bound of the absolute rounding-error scale of `v` (error <~ eps * m)
    pub m: f64,
    /// same for the tangent
    pub md: f64,
    /// value and tangent are integers obtained through +,-,* only
    pub ex: bool,
    /// the tangent depends on the derivative of ReLU at exactly 0
    pub amb: bool,
}

impl Du {
    pub fn c(v: f64) -> Du {
        Du { v, d: 0.0, m: v.abs(), md: 0.0, ex: v.fract() == 0.0, amb: false }
    }
    pub fn zero() -> Du {
        Du::c(0.0)
    }
    pub fn strip(self) -> Du {
        Du { d: 0.0, md: 0.0, amb: false, ..self }
    }
    pub fn add(self, o: Du) -> Du {
        let v = self.v + o.v;
        let d = self.d + o.d;
        Du {
            v,
            d,
            m: self.m + o.m + v.abs(),
            md: self.md + o.md + d.abs(),
            ex: self.ex && o.ex,
            amb: self.amb || o.amb,
        }
    }
    pub fn neg(self) -> Du {
        Du { v: -self.v, d: -self.d, ..self }
    }
    pub fn sub(self, o: Du) -> Du {
        self.add(o.neg())
    }
    pub fn mul(self, o: Du) -> Du {
        let v = self.v * o.v;
        let d = self.v * o.d + self.d * o.v;
        Du {
            v,
            d,
            m: self.v.abs() * o.m + o.v.abs() * self.m + v.abs(),
            md: self.v.abs() * o.md
                + o.v.abs() * self.md
                + self.m * o.d.abs()
                + o.m * self.d.abs()
                + d.abs(),
            ex: self.ex && o.ex,
            amb: self.amb || o.amb,
        }
    }
    pub fn scale(self, c: f64) -> Du {
        self.mul(Du::c(c))
    }
    /// y = f(x) given f(x), f'(x), f''(x)
    pub fn unary(self, f: f64, f1: f64, f2: f64, exact: bool) -> Du {
        let d = f1 * self.d;
        Du {
            v: f,
            d,
            m: f1.abs() * self.m + f.abs(),
            // (no tangent, no second-order term: f2 may overflow where the value is perfectly fine)
            md: f1.abs() * self.md + if self.d != 0.0 { f2.abs() * self.m * self.d.abs() } else { 0.0 } + d.abs(),
            ex: self.ex && exact,
            amb: self.amb,
        }
    }
    pub fn recip(self) -> Du {
        let x = self.v;
        self.unary(1.0 / x, -1.0 / (x * x), 2.0 / (x * x * x), false)
    }
    pub fn div(self, o: Du) -> Du {
        // computed directly (not as self * 1/o): the reciprocal of a subnormal divisor is not representable
        let y = o.v.abs();
        let q = self.v / o.v;
        let dq = (self.d - q * o.d) / o.v;
        let m = (self.m + q.abs() * o.m) / y + q.abs();
        let md = (self.md + q.abs() * o.md + m * o.d.abs()) / y + (o.m / y) * dq.abs() + 2.0 * dq.abs();
        Du { v: q, d: dq, m, md, ex: false, amb: self.amb || o.amb }
    }
    pub fn exp(self) -> Du {
        let e = self.v.exp();
        self.unary(e, e, e, false)
    }
    pub fn ln(self) -> Du {
        let x = self.v;
        self.unary(x.ln(), 1.0 / x, -1.0 / (x * x), false)
    }
    pub fn powf(self, e: f64) -> Du {
        let x = self.v;
        if e == 0.0 {
            return self.unary(1.0, 0.0, 0.0, true);
        }
        if e == 1.0 {
            return self.unary(x, 1.0, 0.0, true);
        }
        let int_pos = e.fract() == 0.0 && e >= 1.0;
        let f = x.powf(e);
        let f1 = e * x.powf(e - 1.0);
        let f2 = if e == 2.0 { 2.0 } else { e * (e - 1.0) * x.powf(e - 2.0) };
        self.unary(f, f1, f2, int_pos)
    }
    pub fn relu(self) -> Du {
        if self.v > 0.0 {
            self
        } else if self.v < 0.0 {
            Du { v: 0.0, d: 0.0, m: 0.0, md: 0.0, ex: self.ex, amb: self.amb }
        } else {
            // derivative at 0 is unspecified: anything in [0, 1] is accepted
            Du { v: 0.0, d: 0.0, m: 0.0, md: self.md, ex: self.ex, amb: self.amb || self.d != 0.0 }
        }
    }
    pub fn sigmoid(self) -> Du {
        // the accurate value on both sides (for very negative x, 1/(1+exp(-x)) evaluates to 0 where the
        // function is about 1e-309: an implementation that returns the subnormal value is not wrong,
        // and neither is one that flushes it - see the underflow slack below)
        let s = if self.v >= 0.0 { 1.0 / (1.0 + (-self.v).exp()) } else { let e = self.v.exp(); e / (1.0 + e) };
        let s1 = s * (1.0 - s);
        let s2 = s1 * (1.0 - 2.0 * s);
        let mut r = self.unary(s, s1, s2, false);
        // the implementation evaluates 1/(1+exp(-x)): a few more roundings than one
        r.m += 3.0 * s.abs() + self.m * s1;
        // and its derivative s*(1-s) from the cached s: near saturation (1-s) cancels, so the
        // derivative carries an absolute error of the order eps*s rather than a relative one
        r.md += 2.0 * s.abs() * self.d.abs();
        // results below the normal range may be flushed to zero (absolute slack of one smallest normal number)
        let tiny = if crate::common::IS_F32 { f32::MIN_POSITIVE as f64 } else { f64::MIN_POSITIVE };
        r.m += tiny / crate::common::tau();
        r.md += self.d.abs() * tiny / crate::common::tau();
        r
    }
}

#[derive(Clone, Copy, Debug, PartialEq, Eq)]
pub enum RErr {
    /// the operand shapes are not admissible: the implementation must panic
    Refuse,
    /// admissible shapes but the values are outside the domain we compare on (skip)
    Domain,
    /// the statement does not define this combination (skip)
    Unspecified,
}

#[derive(Clone, Debug, PartialEq)]
pub struct T {
    pub dims: Vec<usize>,
    pub x: Vec<Du>,
}

pub fn numel(dims: &[usize]) -> usize {
    dims.iter().product()
}

/// row-major multi-index of flat index `i`
pub fn unravel(mut i: usize, dims: &[usize]) -> Vec<usize> {
    let mut idx = vec![0; dims.len()];
    for k in (0..dims.len()).rev() {
        idx[k] = i % dims[k];
        i /= dims[k];
    }
    idx
}

pub fn ravel(idx: &[usize], dims: &[usize]) -> usize {
    let mut f = 0;
    for k in 0..dims.len() {
        debug_assert!(idx[k] < dims[k]);
        f = f * dims[k] + idx[k];
    }
    f
}

/// right-aligned broadcast dimensions, or None when incompatible
pub fn broadcast_dims(a: &[usize], b: &[usize]) -> Option<Vec<usize>> {
    let r = a.len().max(b.len());
    let mut out = vec![0; r];
    for k in 0..r {
        let da = if k < a.len() { a[a.len() - 1 - k] } else { 1 };
        let db = if k < b.len() { b[b.len() - 1 - k] } else { 1 };
        if da != db && da != 1 && db != 1 {
            return None;
        }
        out[r - 1 - k] = da.max(db);
    }
    Some(out)
}

/// flat index into an operand of dimensions `dims` for the output multi-index `oidx`
/// (right aligned, index 0 along broadcast dimensions)
pub fn bidx(oidx: &[usize], dims: &[usize]) -> usize {
    let off = oidx.len() - dims.len();
    let mut f = 0;
    for k in 0..dims.len() {
        let i = if dims[k] == 1 { 0 } else { oidx[off + k] };
        f = f * dims[k] + i;
    }
    f
}

/// can `small` be broadcast (right aligned) to exactly `big`?
pub fn broadcastable_to(small: &[usize], big: &[usize]) -> bool {
    if small.len() > big.len() {
        return false;
    }
    let off = big.len() - small.len();
    small.iter().enumerate().all(|(k, &d)| d == 1 || d == big[off + k])
}

impl T {
    pub fn new(dims: Vec<usize>, x: Vec<Du>) -> T {
        assert_eq!(numel(&dims), x.len());
        T { dims, x }
    }
    pub fn from_f64(dims: Vec<usize>, v: &[f64]) -> T {
        T::new(dims, v.iter().map(|&v| Du::c(v)).collect())
    }
    pub fn len(&self) -> usize {
        self.x.len()
    }
    pub fn values(&self) -> Vec<f64> {
        self.x.iter().map(|d| d.v).collect()
    }
    pub fn strip(&self) -> T {
        T { dims: self.dims.clone(), x: self.x.iter().map(|d| d.strip()).collect() }
    }
    /// same values, tangent basis vector at element `j`
    pub fn with_basis(&self, j: usize) -> T {
        let mut t = self.strip();
        t.x[j].d = 1.0;
        t.x[j].md = 1.0;
        t
    }
    pub fn map(&self, f: impl Fn(Du) -> Du) -> T {
        T { dims: self.dims.clone(), x: self.x.iter().map(|&d| f(d)).collect() }
    }

    pub fn zip(&self, o: &T, f: impl Fn(Du, Du) -> Du) -> Result<T, RErr> {
        let dims = broadcast_dims(&self.dims, &o.dims).ok_or(RErr::Refuse)?;
        let n = numel(&dims);
        let mut x = Vec::with_capacity(n);
        for i in 0..n {
            let idx = unravel(i, &dims);
            x.push(f(self.x[bidx(&idx, &self.dims)], o.x[bidx(&idx, &o.dims)]));
        }
        Ok(T { dims, x })
    }

    /// sum over the last k dimensions, which collapse into a single unit dimension
    pub fn sum(&self, k: usize) -> Result<T, RErr> {
        if k == 0 {
            return Ok(self.clone());
        }
        if k > self.dims.len() {
            return Err(RErr::Unspecified);
        }
        let lead = &self.dims[..self.dims.len() - k];
        let inner: usize = self.dims[self.dims.len() - k..].iter().product();
        let outer = numel(lead);
        let mut x = Vec::with_capacity(outer);
        for o in 0..outer {
            let mut s = self.x[o * inner];
            for i in 1..inner {
                s = s.add(self.x[o * inner + i]);
            }
            x.push(s);
        }
        let mut dims = lead.to_vec();
        dims.push(1);
        Ok(T { dims, x })
    }

    pub fn reshape(&self, dims: &[usize]) -> Result<T, RErr> {
        if dims.is_empty() || dims.iter().any(|&d| d == 0) || numel(dims) != self.len() {
            return Err(RErr::Refuse);
        }
        Ok(T { dims: dims.to_vec(), x: self.x.clone() })
    }

    pub fn softmax(&self) -> Result<T, RErr> {
        let last = *self.dims.last().unwrap();
        let rows = self.len() / last;
        let mut x = Vec::with_capacity(self.len());
        for r in 0..rows {
            let e: Vec<Du> = (0..last).map(|i| self.x[r * last + i].exp()).collect();
            let mut s = e[0];
            for i in 1..last {
                s = s.add(e[i]);
            }
            for i in 0..last {
                x.push(e[i].div(s));
            }
        }
        Ok(T { dims: self.dims.clone(), x })
    }
}

/// View of an operand as a batch of matrices after the optional transposition.
struct MatView<'a> {
    t: &'a T,
    lead: Vec<usize>,
    r: usize,
    c: usize,
    tr: bool,
}

impl<'a> MatView<'a> {
    fn new(t: &'a T, tr: bool) -> MatView<'a> {
        let n = t.dims.len();
        let (lead, r, c) = if n == 1 {
            (vec![], 1, t.dims[0])
        } else {
            (t.dims[..n - 2].to_vec(), t.dims[n - 2], t.dims[n - 1])
        };
        MatView { t, lead, r, c, tr }
    }
    fn rows(&self) -> usize {
        if self.tr { self.c } else { self.r }
    }
    fn cols(&self) -> usize {
        if self.tr { self.r } else { self.c }
    }
    fn at(&self, lidx: &[usize], i: usize, j: usize) -> Du {
        let b = if self.lead.is_empty() { 0 } else { bidx(lidx, &self.lead) };
        let (i, j) = if self.tr { (j, i) } else { (i, j) };
        self.t.x[(b * self.r + i) * self.c + j]
    }
}

/// Batched, optionally transposed matrix product plus optional additive term.
pub fn matmul(a: &T, ta: bool, b: &T, tb: bool, c: Option<&T>) -> Result<T, RErr> {
    if a.dims.len() == 1 && b.dims.len() == 1 {
        if ta || tb {
            return Err(RErr::Unspecified);
        }
        if c.is_some() {
            return Err(RErr::Unspecified);
        }
        if a.len() != b.len() {
            return Err(RErr::Refuse);
        }
        let mut s = a.x[0].mul(b.x[0]);
        for i in 1..a.len() {
            s = s.add(a.x[i].mul(b.x[i]));
        }
        return Ok(T { dims: vec![1], x: vec![s] });
    }
    let av = MatView::new(a, ta);
    let bv = MatView::new(b, tb);
    if av.cols() != bv.rows() {
        return Err(RErr::Refuse);
    }
    let lead = broadcast_dims(&av.lead, &bv.lead).ok_or(RErr::Refuse)?;
    let (rows, cols, inner) = (av.rows(), bv.cols(), av.cols());
    let mut dims = lead.clone();
    dims.push(rows);
    dims.push(cols);
    if let Some(c) = c {
        if !broadcastable_to(&c.dims, &dims) {
            return Err(RErr::Refuse);
        }
        // the statement lists additive terms that span the columns (or hold a single value);
        // a column-shaped term [rows, 1] is not defined by it
        if c.len() != 1 && *c.dims.last().unwrap() != cols {
            return Err(RErr::Unspecified);
        }
    }
    let nb = numel(&lead);
    let mut x = Vec::with_capacity(nb * rows * cols);
    for bi in 0..nb {
        let lidx = unravel(bi, &lead);
        for i in 0..rows {
            for j in 0..cols {
                let mut s = av.at(&lidx, i, 0).mul(bv.at(&lidx, 0, j));
                for k in 1..inner {
                    s = s.add(av.at(&lidx, i, k).mul(bv.at(&lidx, k, j)));
                }
                if let Some(c) = c {
                    let mut oidx = lidx.clone();
                    oidx.push(i);
                    oidx.push(j);
                    s = c.x[bidx(&oidx, &c.dims)].add(s);
                }
                x.push(s);
            }
        }
    }
    Ok(T { dims, x })
}

/// Direct sliding-window convolution.
/// image [batch..., depth, rows, cols], filters [count, depth, frows, fcols]
pub fn conv(image: &T, filters: &T, sr: usize, sc: usize) -> Result<T, RErr> {
    let n = image.dims.len();
    if n < 3 || filters.dims.len() != 4 {
        return Err(RErr::Unspecified);
    }
    let (depth, rows, cols) = (image.dims[n - 3], image.dims[n - 2], image.dims[n - 1]);
    let (count, fd, fr, fc) = (filters.dims[0], filters.dims[1], filters.dims[2], filters.dims[3]);
    if fd != depth || fr > rows || fc > cols || sr == 0 || sc == 0 {
        return Err(RErr::Refuse);
    }
    let orows = (rows - fr) / sr + 1;
    let ocols = (cols - fc) / sc + 1;
    let batch = &image.dims[..n - 3];
    let nb = numel(batch);
    let mut dims = batch.to_vec();
    dims.extend_from_slice(&[count, orows, ocols]);
    let mut x = Vec::with_capacity(numel(&dims));
    for b in 0..nb {
        for f in 0..count {
            for y in 0..orows {
                for xx in 0..ocols {
                    let mut s: Option<Du> = None;
                    for k in 0..depth {
                        for m in 0..fr {
                            for nn in 0..fc {
                                let iv = image.x
                                    [((b * depth + k) * rows + (y * sr + m)) * cols + (xx * sc + nn)];
                                let fv = filters.x[((f * depth + k) * fr + m) * fc + nn];
                                let p = iv.mul(fv);
                                s = Some(match s {
                                    None => p,
                                    Some(s) => s.add(p),
                                });
                            }
                        }
                    }
                    x.push(s.unwrap());
                }
            }
        }
    }
    Ok(T { dims, x })
}
