//! Layers, activations, costs and models: construction of the real objects with a deterministic
//! initializer, and the documented formulas in the reference model.

#![allow(dead_code)]

use crate::refmodel::*;
use corgi::activation::{self, Activation};
use corgi::array::Array;
use corgi::cost::{self, CostFunction};
use corgi::initializer::Initializer;
use corgi::layer::conv::Conv;
use corgi::layer::dense::Dense;
use corgi::layer::Layer;
use corgi::numbers::Float;
use std::cell::Cell;
use std::rc::Rc;

#[derive(Clone, Copy, Debug, PartialEq, Eq)]
pub enum Act {
    None,
    Relu,
    Sigmoid,
    Softmax,
}

impl Act {
    pub fn all() -> [Act; 4] {
        [Act::None, Act::Relu, Act::Sigmoid, Act::Softmax]
    }
    pub fn name(&self) -> &'static str {
        match self {
            Act::None => "none",
            Act::Relu => "relu",
            Act::Sigmoid => "sigmoid",
            Act::Softmax => "softmax",
        }
    }
    pub fn make(&self) -> Option<Activation> {
        match self {
            Act::None => None,
            Act::Relu => Some(activation::relu()),
            Act::Sigmoid => Some(activation::sigmoid()),
            Act::Softmax => Some(activation::softmax()),
        }
    }
    pub fn apply_ref(&self, x: &T) -> Result<T, RErr> {
        Ok(match self {
            Act::None => x.clone(),
            Act::Relu => x.map(|d| d.relu()),
            Act::Sigmoid => x.map(|d| d.sigmoid()),
            Act::Softmax => x.softmax()?,
        })
    }
}

#[derive(Clone, Debug, PartialEq)]
pub enum LayerCfg {
    Dense { inp: usize, out: usize, act: Act },
    Conv { count: usize, depth: usize, fr: usize, fc: usize, sr: usize, sc: usize, act: Act },
}

impl LayerCfg {
    pub fn describe(&self) -> String {
        match self {
            LayerCfg::Dense { inp, out, act } => format!("dense({}->{},{})", inp, out, act.name()),
            LayerCfg::Conv { count, depth, fr, fc, sr, sc, act } => {
                format!("conv({}x{}x{}x{},stride({},{}),{})", count, depth, fr, fc, sr, sc, act.name())
            }
        }
    }
    /// dimensions of the layer's parameters, in the order of Layer::parameters()
    pub fn param_dims(&self) -> Vec<Vec<usize>> {
        match self {
            LayerCfg::Dense { inp, out, .. } => vec![vec![*out, *inp], vec![*out]],
            LayerCfg::Conv { count, depth, fr, fc, .. } => vec![vec![*count, *depth, *fr, *fc], vec![*count, 1, 1]],
        }
    }
}

/// Deterministic counter-based initializer: dyadic values in [-1, 1], never zero.
pub fn det_initializer(salt: u64) -> Initializer {
    let counter = Rc::new(Cell::new(salt));
    // salts >= 1000 give all-negative parameters (every ReLU unit dead on positive inputs),
    // salts >= 2000 all-positive ones
    let mode = salt / 1000;
    Box::new(move |_| {
        let c = counter.get();
        counter.set(c + 1);
        let k = (c * 7 + 3) % 17; // 0..16
        let v = (k as f64 - 8.0) / 8.0;
        let v = if v == 0.0 { 0.5625 } else { v };
        (match mode {
            0 => v,
            1 => -(v.abs() * 0.75 + 0.125),
            _ => v.abs() * 0.75 + 0.125,
        }) as Float
    })
}

/// The activations a layer stack refers to must outlive the layers (Dense borrows them).
pub struct ActStore {
    pub acts: Vec<Option<Activation>>,
}

impl ActStore {
    pub fn new(cfgs: &[LayerCfg]) -> ActStore {
        ActStore {
            acts: cfgs
                .iter()
                .map(|c| match c {
                    LayerCfg::Dense { act, .. } => act.make(),
                    LayerCfg::Conv { .. } => None,
                })
                .collect(),
        }
    }
}

pub fn build_layers<'a>(cfgs: &[LayerCfg], store: &'a ActStore, salt: u64) -> Vec<Box<dyn Layer + 'a>> {
    let init = det_initializer(salt);
    cfgs.iter()
        .enumerate()
        .map(|(i, c)| -> Box<dyn Layer + 'a> {
            match c {
                LayerCfg::Dense { inp, out, .. } => Box::new(Dense::new(*inp, *out, &init, store.acts[i].as_ref())),
                LayerCfg::Conv { count, depth, fr, fc, sr, sc, act } => {
                    Box::new(Conv::new((*count, *depth, *fr, *fc), (*sr, *sc), &init, act.make()))
                }
            }
        })
        .collect()
}

pub fn t_of(a: &Array) -> T {
    T::new(a.dimensions().to_vec(), a.values().iter().map(|v| Du::c(*v as f64)).collect())
}

/// read the parameters of every layer (dimensions and values)
pub fn read_params(layers: &mut [Box<dyn Layer + '_>]) -> Vec<T> {
    let mut out = Vec::new();
    for l in layers.iter_mut() {
        for p in l.parameters() {
            out.push(t_of(p));
        }
    }
    out
}

pub fn ref_layer(cfg: &LayerCfg, w: &T, b: &T, x: &T) -> Result<T, RErr> {
    match cfg {
        LayerCfg::Dense { act, .. } => {
            let y = matmul(x, false, w, true, Some(b))?;
            act.apply_ref(&y)
        }
        LayerCfg::Conv { sr, sc, act, .. } => {
            let y = conv(x, w, *sr, *sc)?;
            let y = y.zip(b, |p, q| p.add(q))?;
            act.apply_ref(&y)
        }
    }
}

/// forward of the whole stack; params holds [w0, b0, w1, b1, ...]
pub fn ref_forward(cfgs: &[LayerCfg], params: &[T], x: &T) -> Result<T, RErr> {
    let mut cur = x.clone();
    for (i, c) in cfgs.iter().enumerate() {
        cur = ref_layer(c, &params[2 * i], &params[2 * i + 1], &cur)?;
    }
    Ok(cur)
}

#[derive(Clone, Copy, Debug, PartialEq, Eq)]
pub enum CostK {
    Mse,
    CrossEntropy,
}

impl CostK {
    pub fn name(&self) -> &'static str {
        match self {
            CostK::Mse => "mse",
            CostK::CrossEntropy => "cross_entropy",
        }
    }
    pub fn make(&self) -> CostFunction {
        match self {
            CostK::Mse => cost::mse(),
            CostK::CrossEntropy => cost::cross_entropy(),
        }
    }
    /// the documented formula, as an array
    pub fn apply_ref(&self, output: &T, target: &T) -> Result<T, RErr> {
        self.apply_ref_guarded(output, target, true)
    }

    /// `guard`: keep outputs of the cross-entropy away from 0 (needed where its derivative is compared;
    /// the cost itself is defined for every positive output)
    pub fn apply_ref_guarded(&self, output: &T, target: &T, guard: bool) -> Result<T, RErr> {
        match self {
            CostK::Mse => {
                let n = output.len() as f64;
                let diff = target.zip(output, |t, o| t.sub(o))?;
                Ok(diff.map(|d| d.mul(d).scale(1.0 / n)))
            }
            CostK::CrossEntropy => {
                let lead = output.dims[0] as f64;
                for d in &output.x {
                    if !(d.v > if guard { 1e-6 } else { 0.0 }) {
                        return Err(RErr::Domain);
                    }
                }
                let ln = output.map(|d| d.ln());
                let prod = target.zip(&ln, |t, l| t.neg().mul(l))?;
                Ok(prod.map(|d| d.scale(1.0 / lead)))
            }
        }
    }
}

pub fn sum_all_ref(t: &T) -> Du {
    let mut s = t.x[0];
    for d in &t.x[1..] {
        s = s.add(*d);
    }
    s
}
