//! C19 - the single-precision build gives the same results to single precision:
//! the C01-C07 spaces re-executed by the harness built with `corgi/f32`, against the f64 reference.

use crate::common::*;
use crate::Explored;
use serde_json::json;

pub fn explore(opts: &Opts) -> Explored {
    if !IS_F32 {
        machinery_error("C19 must be run by the harness built with --features f32 (use /verif/check C19)");
    }
    let mut total = Local::new(opts.only.clone());
    let mut parts = Vec::new();
    let subs: Vec<(&str, fn(&Opts) -> Explored)> = vec![
        ("C01", crate::checks::c01::explore),
        ("C02", crate::checks::c02::explore),
        ("C03", crate::checks::c03::explore),
        ("C04", crate::checks::c04::explore),
        ("C05", crate::checks::c05::explore),
        ("C06", crate::checks::c06::explore),
        ("C07", crate::checks::c07::explore),
    ];
    for (name, f) in subs {
        let t0 = std::time::Instant::now();
        let mut o = opts.clone();
        // a replayed case carries the space it belongs to as a prefix
        if let Some(only) = &opts.only {
            match only.strip_prefix(&format!("{}:", name)) {
                Some(rest) => o.only = Some(rest.to_string()),
                None => continue,
            }
        }
        let ex = f(&o);
        let mut l = ex.local;
        for v in l.violations.iter_mut() {
            v.sub = format!("f32/{}/{}", name, v.sub);
            v.case = format!("{}:{}", name, v.case);
        }
        for s in l.samples.iter_mut() {
            *s = format!("{}:{}", name, s);
        }
        parts.push(json!({"space": name, "states": l.states, "transitions": l.transitions, "distinct_outcomes": l.outcomes.len(),
                          "violating_executions": l.violation_count, "bounds": ex.bounds, "wall_s": t0.elapsed().as_secs_f64()}));
        l.only = opts.only.clone();
        total.merge(l);
    }
    // histories under f32: accumulation over passes and clears with inexact sums of very different
    // magnitudes (what a float-width-specific accumulation scheme would have to get right)
    {
        use crate::checks::c10::{base_cfg, run_all};
        use crate::machine::{Bounds, LeafSpec};
        use crate::ops::OpK;
        let lv = vec![
            LeafSpec { dims: vec![2], vals: vec![0.1, 1000.3], tracked: true },
            LeafSpec { dims: vec![2], vals: vec![1000.7, 0.3], tracked: true },
        ];
        let mut m = base_cfg("f32/N1P4C1/accumulate", lv, vec![OpK::Mul], 3);
        m.bounds = Bounds { builds: 1, passes: 4, clears: 1, depth: 6, ..Bounds::default() };
        m.seeds = vec![0, 4];
        // unmerged: a width-specific accumulation scheme may keep hidden state the probe does not know
        m.merged = false;
        let mut o = opts.clone();
        let skip = match &opts.only {
            Some(only) => match only.strip_prefix("E3:") {
                Some(rest) => {
                    o.only = Some(rest.to_string());
                    false
                }
                None => true,
            },
            None => false,
        };
        if !skip {
            let (mut ml, st) = run_all(&o, vec![m]);
            for v in ml.violations.iter_mut() {
                v.sub = format!("f32/E3/{}", v.sub);
                v.case = format!("E3:{}", v.case);
            }
            ml.only = opts.only.clone();
            parts.push(json!({"space": "E3 accumulation machine under f32", "machines": st}));
            total.merge(ml);
        }
    }
    Explored {
        local: total,
        bounds: json!({"float": "f32", "spaces": parts, "tolerance": format!("|impl - ref| <= {} * running error bound; integer-exact cases below 2^24 must be equal", tau())}),
        rule: "the C01-C07 spaces executed on the library built with the f32 feature; the reference stays in f64 (alphabet values are exactly representable in f32); dimensions, tracking, gradient presence and accept/refuse must equal the reference's prediction exactly (which the f64 build is held to as well), values and gradients within the single-precision tolerance".into(),
        exhaustive: true,
        assumptions: vec!["the bound is a running first-order error bound for polynomial programs and a conditioned heuristic for transcendental ones on in-domain inputs".into()],
    }
}
