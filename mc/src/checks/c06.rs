//! C06 - convolution equals the direct sliding-window definition (engine E1).

use crate::common::*;
use crate::ops::*;
use crate::refmodel::*;
use crate::shapes::*;
use crate::spaces::*;
use crate::Explored;
use serde_json::json;

pub fn explore(opts: &Opts) -> Explored {
    let mut space = conv_space(opts.tier);
    // a few larger geometries (longer unrolled windows, more windows) on top of the exhaustive small ones
    for (img, fil, sr, sc) in [
        (vec![3, 7, 6], vec![2, 3, 3, 3], 2, 1),
        (vec![2, 3, 7, 6], vec![2, 3, 3, 3], 1, 2),
        (vec![1, 9, 9], vec![3, 1, 4, 4], 2, 2),
        (vec![2, 2, 6, 8], vec![4, 2, 2, 5], 3, 1),
        (vec![4, 5, 5], vec![1, 4, 1, 1], 1, 3),
        (vec![2, 5, 5], vec![65, 2, 2, 2], 1, 1),
        (vec![2, 2, 4, 4], vec![70, 2, 3, 3], 1, 1),
        (vec![1, 12, 13], vec![2, 1, 3, 3], 1, 1),
        (vec![5, 6, 6], vec![3, 5, 5, 5], 1, 1),
        (vec![1, 260, 260], vec![1, 1, 2, 2], 1, 1),
        (vec![2, 3, 150, 150], vec![2, 3, 3, 3], 2, 3),
    ] {
        space.push(ConvCfg { image: img, filters: fil, sr, sc });
    }
    // the output-size arithmetic along one axis at a time: every (length, filter length, stride) with
    // length <= 40 (thorough 64), filter length <= 7, stride <= 9, the other axis minimal
    let exhaustive_configs = space.len();
    let max_len = if opts.tier == Tier::Quick { 40 } else { 64 };
    for len in 1..=max_len {
        for flen in 1..=len.min(7) {
            for stride in 1..=9usize {
                if len <= 4 && stride <= 3 {
                    continue; // already in the exhaustive part
                }
                space.push(ConvCfg { image: vec![1, len, 2], filters: vec![1, 1, flen, 1], sr: stride, sc: 1 });
                space.push(ConvCfg { image: vec![1, 2, len], filters: vec![1, 1, 2, flen], sr: 1, sc: stride });
            }
        }
    }
    // 7 and 8: positive valuations whose products resp. window sums overflow (compared with `cmp_slice_inf`)
    let variants: Vec<u64> = if IS_F32 { vec![opts.seed % 3, (opts.seed + 1) % 3, 3, 4, 5, 7, 8] } else { vec![opts.seed % 3, (opts.seed + 1) % 3, 3, 4, 5, 6, 7, 8] };
    let local = par(opts, space.len(), |i, l| {
        let c = &space[i];
        l.states += 1;
        for &var in &variants {
            if i >= exhaustive_configs && var != variants[0] {
                continue;
            }
            let case = || format!("{} val={}", c.describe(), var);
            if !l.want(&case) {
                continue;
            }
            let val = |n: usize, salt: usize| if var >= 7 { vals_overflow(n, salt, var - 7) } else { vals(n, salt, var) };
            let iv = val(numel(&c.image), 0);
            let fv = val(numel(&c.filters), 1);
            let ri = T::from_f64(c.image.clone(), &iv);
            let rf = T::from_f64(c.filters.clone(), &fv);
            let op = OpK::Conv { sr: c.sr, sc: c.sc };
            let expect = match if var >= 7 { apply_ref_raw(&op, &[&ri, &rf]) } else { apply_ref(&op, &[&ri, &rf]) } {
                Ok(e) => e,
                Err(_) => {
                    l.count("skipped");
                    continue;
                }
            };
            let img = arr(&c.image, &iv);
            let fil = arr(&c.filters, &fv);
            let got = run_catch(|| {
                let r = apply_impl(&op, &[&img, &fil], 0);
                (r.dimensions().to_vec(), r.values().to_vec())
            });
            l.transitions += 1;
            l.validated += 1;
            let rows = c.image[c.image.len() - 2];
            let cols = c.image[c.image.len() - 1];
            if (rows - c.filters[2]) % c.sr != 0 || (cols - c.filters[3]) % c.sc != 0 {
                l.count("uneven_stride");
            }
            if c.sr < c.filters[2] || c.sc < c.filters[3] {
                l.count("overlapping_windows");
            }
            if c.image.len() > 3 && numel(&c.image[..c.image.len() - 3]) > 1 {
                l.count("batch_gt_1");
            }
            match got {
                Err(msg) => l.violation("conv", case(), format!("admissible convolution panicked: {}", msg)),
                Ok((d, v)) => {
                    l.outcome(digest_vals(&d, &v));
                    if d != expect.dims {
                        l.violation("conv", case(), format!("dimensions {:?}, reference {:?}", d, expect.dims));
                    } else if let Err(e) = if var >= 7 { cmp_slice_inf(&v, &expect.x, Part::Value) } else { cmp_slice(&v, &expect.x, Part::Value) } {
                        l.violation("conv", case(), e);
                    }
                    if var >= 7 && expect.x.iter().any(|d| d.v.is_infinite()) {
                        l.count("overflowing_results");
                    }
                }
            }
            l.sample(&case);
        }
    });
    Explored {
        local,
        bounds: json!({"configurations": space.len(), "image_rows_cols": if opts.tier == Tier::Quick {"1..4"} else {"1..5"},
                       "depth": [1, 2], "filter_rows_cols": "1..3", "strides": "1..3 each, independently",
                       "batch": ["absent", [1], [2], [3], [2, 2]], "valuations": variants}),
        rule: "every (image size, depth, filter count, filter size, stride pair, batch form) x 2 valuations; one conv call compared element by element with the direct sliding-window sum".into(),
        exhaustive: true,
        assumptions: vec!["filters have rank 4 [count, depth, rows, cols] as in the statement".into()],
    }
}
