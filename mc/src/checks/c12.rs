//! C12 - handles are transparent: clones, drops and re-binding never change results (E2/E3-style
//! differential: the real library against itself, bitwise).

use crate::common::*;
use crate::gen::*;
use crate::machine::{Act, IWorld, LeafSpec, MCfg, Obs};
use crate::ops::*;
use crate::prog::*;
use crate::Explored;
use serde_json::json;

#[derive(Clone, Debug, PartialEq)]
enum Atom {
    /// operand `pos` of node `k` is a temporary clone
    TempClone(usize, usize),
    /// value v is cloned right after its creation and the clone is used at the given use sites
    PClone(usize, Vec<(usize, usize)>),
    /// the handle of v is dropped right after its last use (before the pass)
    DropAfterLastUse(usize),
    /// node k's result is bound over its first operand's variable
    Rebind(usize),
    /// the pass is started from a clone of the root
    RootClone,
    /// the gradient of v is read through a clone made before / after the pass
    ReadBefore(usize),
    ReadAfter(usize),
    /// after node k has been built, the handle of v is re-bound through a flag round trip that
    /// restores its flags: `.untracked().tracked()` for a tracked handle, `.tracked().untracked()` otherwise
    Reflag(usize, usize),
    /// an alias `v.clone().untracked()` (or `.tracked()` for an untracked v) is made right after
    /// v's creation and only held: the gradient must be visible through it as well
    FlagAlias(usize),
    /// after the pass an alias of v is made and re-flagged (`v.clone().untracked()`, optionally
    /// followed by `.tracked()`): flag transitions on a clone must not touch the shared gradient
    PostPassAlias(usize, bool),
    /// v is paused (`stop_tracking`), cloned, and both handles are resumed; the clone then stands
    /// in for v in every later use (and as the root of the pass when v is the root)
    PausedClone(usize),
    /// the handle of v (the root included) is dropped after the pass: everything still held must
    /// show what it shows when v is kept
    DropAfterPass(usize),
}

fn fmt_atom(a: &Atom) -> String {
    match a {
        Atom::TempClone(k, p) => format!("tempclone(node{},arg{})", k, p),
        Atom::PClone(v, u) => format!("clone(v{})used@{:?}", v, u).replace(' ', ""),
        Atom::DropAfterLastUse(v) => format!("drop-after-last-use(v{})", v),
        Atom::Rebind(k) => format!("rebind(node{})", k),
        Atom::RootClone => "pass-from-clone-of-root".into(),
        Atom::ReadBefore(v) => format!("read-via-clone-made-before-pass(v{})", v),
        Atom::ReadAfter(v) => format!("read-via-clone-made-after-pass(v{})", v),
        Atom::Reflag(v, k) => format!("flag-round-trip(v{},after-node{})", v, k),
        Atom::FlagAlias(v) => format!("held-alias-with-flipped-flags(v{})", v),
        Atom::PausedClone(v) => format!("cloned-while-paused(v{})", v),
        Atom::DropAfterPass(v) => format!("drop-after-pass(v{})", v),
        Atom::PostPassAlias(v, again) => format!("alias-reflagged-after-pass(v{},{})", v, if *again { "untracked-then-tracked" } else { "untracked" }),
    }
}

struct Script {
    acts: Vec<Act>,
    /// for every base value: the slots that must show exactly what the base run shows for it
    views: Vec<Vec<usize>>,
    nslots: usize,
}

fn uses_of(p: &Program, v: usize) -> Vec<(usize, usize)> {
    let mut out = Vec::new();
    for (k, n) in p.nodes.iter().enumerate() {
        for (pos, a) in n.args.iter().enumerate() {
            if *a == v {
                out.push((k, pos));
            }
        }
    }
    out
}

/// Build the action script of program `p`, pass from `root`, under a set of handle perturbations.
/// Returns None when the perturbations do not apply to this program.
fn script(p: &Program, ops: &[OpK], root: usize, atoms: &[Atom], tracked: &[bool]) -> Option<Script> {
    let nl = p.nl();
    let nv = p.nv();
    let mut next_slot = nv;
    let mut fresh = || {
        next_slot += 1;
        next_slot - 1
    };
    let mut slot_of: Vec<Option<usize>> = (0..nv).map(Some).collect(); // main handle of each value
    let mut views: Vec<Vec<usize>> = vec![Vec::new(); nv];
    let mut acts: Vec<Act> = Vec::new();
    let mut cslot: Vec<Option<usize>> = vec![None; nv];
    let op_index = |op: &OpK| ops.iter().position(|o| o == op).unwrap() as u8;
    let last_use = |v: usize| -> Option<usize> { uses_of(p, v).iter().map(|u| u.0).max() };

    // validity of the atoms
    for a in atoms {
        match a {
            Atom::PClone(v, us) => {
                if us.is_empty() || us.iter().any(|u| !uses_of(p, *v).contains(u)) {
                    return None;
                }
            }
            Atom::DropAfterLastUse(v) => {
                if *v == root {
                    return None;
                }
            }
            Atom::Rebind(k) => {
                let v = p.nodes[*k].args[0];
                // the variable must not be needed afterwards
                if v == root || last_use(v) != Some(*k) || atoms.contains(&Atom::DropAfterLastUse(v)) {
                    return None;
                }
                if atoms.iter().any(|b| matches!(b, Atom::ReadBefore(x) | Atom::ReadAfter(x) | Atom::PostPassAlias(x, _) if *x == v)) {
                    return None;
                }
            }
            Atom::PausedClone(v) => {
                if !tracked[*v] || atoms.iter().any(|b| matches!(b, Atom::PClone(x, _) if x == v)) {
                    return None;
                }
            }
            Atom::ReadBefore(v) | Atom::ReadAfter(v) | Atom::PostPassAlias(v, _) => {
                if atoms.contains(&Atom::DropAfterLastUse(*v)) {
                    return None;
                }
            }
            _ => {}
        }
    }
    let make_pclone = |v: usize, acts: &mut Vec<Act>, cslot: &mut Vec<Option<usize>>, fresh: &mut dyn FnMut() -> usize, slot_of: &Vec<Option<usize>>| {
        if atoms.iter().any(|a| matches!(a, Atom::PClone(x, _) if *x == v)) && cslot[v].is_none() {
            let c = fresh();
            acts.push(Act::Clone { src: slot_of[v].unwrap() as u8, dst: c as u8 });
            cslot[v] = Some(c);
        }
    };
    let mut alias: Vec<Option<usize>> = vec![None; nv];
    let paused_clone = |v: usize, acts: &mut Vec<Act>, cslot: &mut Vec<Option<usize>>, fresh: &mut dyn FnMut() -> usize, slot_of: &Vec<Option<usize>>| {
        if atoms.contains(&Atom::PausedClone(v)) && cslot[v].is_none() {
            let s = slot_of[v].unwrap() as u8;
            let c = fresh();
            acts.push(Act::Flag { slot: s, kind: 3 });
            acts.push(Act::Clone { src: s, dst: c as u8 });
            acts.push(Act::Flag { slot: s, kind: 2 });
            acts.push(Act::Flag { slot: c as u8, kind: 2 });
            cslot[v] = Some(c);
        }
    };
    for v in 0..nl {
        paused_clone(v, &mut acts, &mut cslot, &mut fresh, &slot_of);
        make_pclone(v, &mut acts, &mut cslot, &mut fresh, &slot_of);
        if atoms.contains(&Atom::FlagAlias(v)) {
            let c = fresh();
            acts.push(Act::Clone { src: slot_of[v].unwrap() as u8, dst: c as u8 });
            acts.push(Act::Flag { slot: c as u8, kind: if tracked[v] { 1 } else { 0 } });
            alias[v] = Some(c);
        }
    }
    // leaves that are never used and must be dropped "after their last use": right away
    for v in 0..nl {
        if atoms.contains(&Atom::DropAfterLastUse(v)) && last_use(v).is_none() {
            acts.push(Act::Drop { slot: slot_of[v].unwrap() as u8 });
            slot_of[v] = None;
        }
    }
    for (k, n) in p.nodes.iter().enumerate() {
        let vi = nl + k;
        let mut args: Vec<u8> = Vec::new();
        let mut temps: Vec<usize> = Vec::new();
        for (pos, a) in n.args.iter().enumerate() {
            let via_pclone = atoms.iter().any(|x| matches!(x, Atom::PClone(v, us) if *v == *a && us.contains(&(k, pos)))) || atoms.contains(&Atom::PausedClone(*a));
            let mut src = if via_pclone { cslot[*a]? } else { slot_of[*a]? };
            if atoms.contains(&Atom::TempClone(k, pos)) {
                let t = fresh();
                acts.push(Act::Clone { src: src as u8, dst: t as u8 });
                temps.push(t);
                src = t;
            }
            args.push(src as u8);
        }
        let dst = if atoms.contains(&Atom::Rebind(k)) {
            let v = n.args[0];
            let s = slot_of[v]?;
            slot_of[v] = None;
            s
        } else {
            vi
        };
        acts.push(Act::Build { op: op_index(&n.op), args: args.into(), dst: dst as u8 });
        slot_of[vi] = Some(dst);
        for t in temps {
            acts.push(Act::Drop { slot: t as u8 });
        }
        paused_clone(vi, &mut acts, &mut cslot, &mut fresh, &slot_of);
        make_pclone(vi, &mut acts, &mut cslot, &mut fresh, &slot_of);
        if atoms.contains(&Atom::FlagAlias(vi)) {
            let c = fresh();
            acts.push(Act::Clone { src: slot_of[vi].unwrap() as u8, dst: c as u8 });
            acts.push(Act::Flag { slot: c as u8, kind: if tracked[vi] { 1 } else { 0 } });
            alias[vi] = Some(c);
        }
        for v in 0..=vi {
            if atoms.contains(&Atom::Reflag(v, k)) {
                let s = slot_of[v]? as u8;
                if tracked[v] {
                    acts.push(Act::Flag { slot: s, kind: 1 });
                    acts.push(Act::Flag { slot: s, kind: 0 });
                } else {
                    acts.push(Act::Flag { slot: s, kind: 0 });
                    acts.push(Act::Flag { slot: s, kind: 1 });
                }
            }
        }
        for v in 0..nv {
            if atoms.contains(&Atom::DropAfterLastUse(v)) && slot_of[v].is_some() {
                let due = match last_use(v) {
                    Some(lu) => lu == k,
                    None => v == vi,
                };
                if due && v <= vi {
                    acts.push(Act::Drop { slot: slot_of[v].unwrap() as u8 });
                    slot_of[v] = None;
                }
            }
        }
    }
    for v in 0..nv {
        if atoms.contains(&Atom::ReadBefore(v)) {
            let s = slot_of[v]?;
            let c = fresh();
            acts.push(Act::Clone { src: s as u8, dst: c as u8 });
            views[v].push(c);
        }
    }
    let rs = if atoms.contains(&Atom::PausedClone(root)) { cslot[root]? } else { slot_of[root]? };
    if atoms.contains(&Atom::RootClone) {
        let c = fresh();
        acts.push(Act::Clone { src: rs as u8, dst: c as u8 });
        acts.push(Act::Backward { slot: c as u8, seed: 0 });
        views[root].push(c);
    } else {
        acts.push(Act::Backward { slot: rs as u8, seed: 0 });
    }
    for v in 0..nv {
        if atoms.contains(&Atom::ReadAfter(v)) {
            let s = slot_of[v]?;
            let c = fresh();
            acts.push(Act::Clone { src: s as u8, dst: c as u8 });
            views[v].push(c);
        }
    }
    for v in 0..nv {
        for again in [false, true] {
            if atoms.contains(&Atom::PostPassAlias(v, again)) {
                let s = slot_of[v]?;
                let c = fresh();
                acts.push(Act::Clone { src: s as u8, dst: c as u8 });
                acts.push(Act::Flag { slot: c as u8, kind: if tracked[v] { 1 } else { 0 } });
                if again {
                    acts.push(Act::Flag { slot: c as u8, kind: if tracked[v] { 0 } else { 1 } });
                }
                views[v].push(c);
            }
        }
    }
    for v in 0..nv {
        if atoms.contains(&Atom::DropAfterPass(v)) {
            let s = slot_of[v]?;
            acts.push(Act::Drop { slot: s as u8 });
            slot_of[v] = None;
        }
    }
    for v in 0..nv {
        if let Some(s) = slot_of[v] {
            views[v].push(s);
        }
        if let Some(c) = cslot[v] {
            views[v].push(c);
        }
        if let Some(c) = alias[v] {
            views[v].push(c);
        }
    }
    Some(Script { acts, views, nslots: next_slot })
}

fn run_script(cfg: &MCfg, s: &Script) -> Result<Vec<Option<Obs>>, String> {
    run_catch(|| {
        let mut c = cfg.clone();
        c.nslots = s.nslots;
        let mut iw = IWorld::new(&c);
        for (k, a) in s.acts.iter().enumerate() {
            iw.apply(&c, a, 100 + k, None);
        }
        iw.observe()
    })
}

fn same_obs(a: &Obs, b: &Obs) -> Result<(), String> {
    let bits = |x: &[corgi::numbers::Float], y: &[corgi::numbers::Float]| x.len() == y.len() && x.iter().zip(y).all(|(p, q)| p.to_bits() == q.to_bits());
    if a.dims != b.dims || !bits(&a.vals, &b.vals) {
        return Err(format!("values {:?} {} vs {:?} {}", a.dims, fmt_vals(&a.vals), b.dims, fmt_vals(&b.vals)));
    }
    match (&a.grad, &b.grad) {
        (None, None) => Ok(()),
        (Some(x), Some(y)) => {
            if x.0 != y.0 || !bits(&x.1, &y.1) {
                Err(format!("gradient {:?} {} vs {:?} {}", x.0, fmt_vals(&x.1), y.0, fmt_vals(&y.1)))
            } else {
                Ok(())
            }
        }
        (x, y) => Err(format!("gradient present {} vs {}", x.is_some(), y.is_some())),
    }
}

fn atoms_for(p: &Program, root: usize) -> Vec<Atom> {
    let mut out = Vec::new();
    for (k, n) in p.nodes.iter().enumerate() {
        for pos in 0..n.args.len() {
            out.push(Atom::TempClone(k, pos));
        }
        out.push(Atom::Rebind(k));
    }
    for v in 0..p.nv() {
        let us = uses_of(p, v);
        if !us.is_empty() {
            out.push(Atom::PClone(v, us.clone()));
            if us.len() > 1 {
                for u in &us {
                    out.push(Atom::PClone(v, vec![*u]));
                }
            }
        }
        if v != root {
            out.push(Atom::DropAfterLastUse(v));
        }
        out.push(Atom::ReadBefore(v));
        out.push(Atom::ReadAfter(v));
        out.push(Atom::FlagAlias(v));
        out.push(Atom::PausedClone(v));
        out.push(Atom::PostPassAlias(v, false));
        out.push(Atom::PostPassAlias(v, true));
        out.push(Atom::DropAfterPass(v));
        let first = if v < p.nl() { 0 } else { v - p.nl() };
        for k in first..p.nodes.len() {
            out.push(Atom::Reflag(v, k));
        }
    }
    out.push(Atom::RootClone);
    out
}

/// A gradient installed by hand (`*a.gradient_mut() = Some(g)`), of the array's own dimensions or of
/// dimensions that broadcast against them, then one or two passes: what `a` ends up holding must
/// not depend on whether the program still holds `g`, a clone of `g`, a view of `g`, or nothing.
fn installed_gradient_cases(l: &mut Local, var: u64) {
    use corgi::array::Array;
    use corgi::numbers::Float;
    let fl = |v: &[f64]| -> Vec<Float> { v.iter().map(|x| *x as Float).collect() };
    let leaf_dims: Vec<Vec<usize>> = vec![vec![3], vec![2, 3], vec![2, 1, 3]];
    for ad in &leaf_dims {
        let n = crate::refmodel::numel(ad);
        let mut gdims: Vec<Vec<usize>> = Vec::new();
        for g in [ad.clone(), vec![1], vec![3], vec![1, 3]] {
            if !gdims.contains(&g) {
                gdims.push(g);
            }
        }
        for gd in &gdims {
            for gkind in 0..2u8 {
                for prog in 0..4u8 {
                    for passes in 1..=2usize {
                        let case = || format!("installed gradient: a={} g={} ({}) program={} passes={}", crate::shapes::fmt_dims(ad), crate::shapes::fmt_dims(gd), if gkind == 0 { "zeros" } else { "generic" }, ["a*b", "a+a", "sum(a*a)", "neg(a)"][prog as usize], passes);
                        if !l.want(&case) {
                            continue;
                        }
                        l.states += 1;
                        let gn = crate::refmodel::numel(gd);
                        let gv: Vec<f64> = if gkind == 0 { vec![0.0; gn] } else { crate::shapes::vals(gn, 2, var) };
                        let av = crate::shapes::vals_signed(n, 0, var);
                        let bv = crate::shapes::vals(n, 1, var);
                        // handle variants: 0 moved in, 1 original kept, 2 clone kept, 3 view kept, 4 kept and dropped before the pass
                        let mut results: Vec<Result<(Vec<usize>, Vec<Float>), String>> = Vec::new();
                        for variant in 0..5u8 {
                            l.transitions += 1;
                            let (ad2, gd2, av2, bv2, gv2) = (ad.clone(), gd.clone(), fl(&av), fl(&bv), fl(&gv));
                            results.push(run_catch(move || {
                                let a = Array::from((ad2.clone(), av2)).tracked();
                                let b = Array::from((ad2.clone(), bv2)).tracked();
                                let g = Array::from((gd2.clone(), gv2));
                                let mut kept: Vec<Array> = Vec::new();
                                match variant {
                                    0 => *a.gradient_mut() = Some(g),
                                    1 => {
                                        *a.gradient_mut() = Some(g.clone());
                                        kept.push(g);
                                    }
                                    2 => {
                                        kept.push(g.clone());
                                        kept.push(g.clone());
                                        *a.gradient_mut() = Some(g);
                                    }
                                    3 => {
                                        kept.push(g.reshape(gd2.clone()));
                                        *a.gradient_mut() = Some(g);
                                    }
                                    _ => {
                                        let c = g.clone();
                                        *a.gradient_mut() = Some(g);
                                        drop(c);
                                    }
                                }
                                let r = match prog {
                                    0 => &a * &b,
                                    1 => &a + &a,
                                    2 => (&a * &a).sum(ad2.len()),
                                    _ => -&a,
                                };
                                for _ in 0..passes {
                                    r.backward(None);
                                }
                                let out = a.gradient().as_ref().map(|x| (x.dimensions().to_vec(), x.values().to_vec())).unwrap();
                                // what the program kept must not have changed either
                                for k in &kept {
                                    assert!(k.dimensions() == &gd2[..], "a kept handle of the installed gradient changed its dimensions");
                                }
                                out
                            }));
                        }
                        l.validated += 1;
                        match &results[0] {
                            Err(m) => l.violation("installed-gradient", case(), format!("panicked: {}", m)),
                            Ok(base) => {
                                l.outcome(digest_vals(&base.0, &base.1));
                                for (vi, r) in results.iter().enumerate().skip(1) {
                                    let what = ["moved in", "original kept", "clones kept", "a view kept", "a clone dropped before the pass"][vi];
                                    match r {
                                        Err(m) => {
                                            l.violation("installed-gradient", case(), format!("{}: panicked: {}", what, m));
                                            break;
                                        }
                                        Ok(o) => {
                                            if o.0 != base.0 || o.1.len() != base.1.len() || o.1.iter().zip(&base.1).any(|(x, y)| x.to_bits() != y.to_bits()) {
                                                l.violation("installed-gradient", case(), format!("with the installed array moved in, a holds {:?} {}; with {} it holds {:?} {}", base.0, fmt_vals(&base.1), what, o.0, fmt_vals(&o.1)));
                                                break;
                                            }
                                        }
                                    }
                                }
                            }
                        }
                        l.sample(&case);
                    }
                }
            }
        }
    }
}

pub fn explore(opts: &Opts) -> Explored {
    let var = opts.seed % 3;
    let pool = same_shape_pool(var);
    let mut total = Local::new(opts.only.clone());
    let mut base_programs = 0u64;
    // the main alphabet, and a small one around axpy with an inexact coefficient (where a shortcut for
    // "the same handle twice" would differ from the general path by a rounding)
    // ... and one of matrix products of square matrices with their own transposes (the same handle on
    // both sides, against a clone on one side), weighted by a non-symmetric matrix
    let square_pool = vec![
        Leaf { dims: vec![2, 2], vals: vec![1.0 + var as f64, 2.0, -3.0, 0.5] },
        Leaf { dims: vec![2, 2], vals: vec![2.0, -1.0, 4.0, 3.0 + var as f64] },
        Leaf { dims: vec![2, 2], vals: vec![0.5, 1.5, -2.0, 1.0] },
    ];
    let alphabets: Vec<(Vec<OpK>, usize, Vec<Leaf>)> = vec![
        (vec![OpK::Add, OpK::Mul, OpK::Neg, OpK::UMul], 3, pool.clone()),
        (vec![OpK::Axpy(0.1), OpK::Mul, OpK::Div], 2, pool.clone()),
        (vec![OpK::Matmul { ta: false, tb: true, bias: false }, OpK::Matmul { ta: true, tb: false, bias: false }, OpK::Mul], 2, square_pool),
        // products with a rank-1 additive term broadcast over two rows (the dense layer's form)
        (
            vec![OpK::Matmul { ta: false, tb: true, bias: true }, OpK::Mul],
            2,
            vec![
                Leaf { dims: vec![2, 2], vals: vec![1.0 + var as f64, 2.0, -3.0, 0.5] },
                Leaf { dims: vec![2, 2], vals: vec![2.0, -1.0, 4.0, 3.0] },
                Leaf { dims: vec![2], vals: vec![0.5, -1.5 - var as f64] },
            ],
        ),
    ];
    for (ops, gen_nodes, pool) in alphabets {
    let is_matmul_alphabet = ops.iter().any(|o| matches!(o, OpK::Matmul { .. }));
    let (pairs_upto, singles_upto) = match opts.tier {
        // the matrix alphabet: pairs of perturbations only in the thorough tier
        Tier::Quick => (if is_matmul_alphabet { 1usize } else { 2usize }, 3usize),
        Tier::Thorough => (if is_matmul_alphabet { 2 } else { 3 }, 3),
    };
    let masks: Vec<u32> = vec![0b111, 0b011, 0b101];
    let threads = opts.threads.max(1);
    let progs = std::sync::Mutex::new(0u64);
    let local = par(opts, threads, |ti, l| {
        let mut sink = |idx: u64, p: &Program| {
            if idx as usize % threads != ti {
                return;
            }
            l.states += 1;
            let n = p.nodes.len();
            for &m in &masks {
                let leaves: Vec<LeafSpec> = pool.iter().enumerate().map(|(i, lf)| LeafSpec { dims: lf.dims.clone(), vals: lf.vals.clone(), tracked: m & (1 << i) != 0 }).collect();
                let cfg = {
                    let mut c = crate::checks::c10::base_cfg("c12", leaves, ops.clone(), p.nv());
                    c.merged = false;
                    c
                };
                let roots: Vec<usize> = if n <= 2 { (p.nl()..p.nv()).collect() } else { vec![p.nv() - 1] };
                for root in roots {
                    let mask: Vec<bool> = (0..p.nl()).map(|i| m & (1 << i) != 0).collect();
                    let tracked = p.tracked(&mask);
                    let base_script = script(p, &ops, root, &[], &tracked).unwrap();
                    let base = match run_script(&cfg, &base_script) {
                        Ok(b) => b,
                        Err(_) => {
                            let _ = take_user_log();
                            continue;
                        }
                    };
                    // the unperturbed run itself against the reference: a differential oracle is blind to
                    // whatever all variants have in common (an operand silently replaced by a private node)
                    {
                        let case = || format!("{} mask={:03b} root=v{} unperturbed", p.describe(), m, root).replace(' ', "");
                        if l.want(&case) {
                            let mut cr = cfg.clone();
                            cr.check_ref = true;
                            cr.nslots = base_script.nslots;
                            l.transitions += 1;
                            l.validated += 1;
                            if let crate::machine::StepResult::Violation { sub, detail } = crate::machine::replay(&cr, &base_script.acts) {
                                l.violation("unperturbed-vs-reference", case(), format!("{}: {}", sub, detail));
                            }
                            let _ = take_user_log();
                        }
                    }
                    let atoms = atoms_for(p, root);
                    let mut combos: Vec<Vec<Atom>> = atoms.iter().map(|a| vec![a.clone()]).collect();
                    if n <= pairs_upto {
                        for i in 0..atoms.len() {
                            for j in i + 1..atoms.len() {
                                combos.push(vec![atoms[i].clone(), atoms[j].clone()]);
                            }
                        }
                    } else if n > singles_upto {
                        combos.clear();
                    }
                    // the seed of a pass may be a clone of a handle the caller keeps, or a fetched gradient:
                    // same values, same results as with a fresh seed array
                    {
                        let case = || format!("{} mask={:03b} root=v{} seed-from-kept-handle", p.describe(), m, root).replace(' ', "");
                        // (the seed handle has the first leaf's dimensions: only for roots of those dimensions)
                        let root_has_seed_dims = base[base_script.views[root][0]].as_ref().map(|o| o.dims == pool[0].dims).unwrap_or(false);
                        if root_has_seed_dims && l.want(&case) {
                            let nv = p.nv();
                            let nl = p.nl();
                            let n_root = pool[0].vals.len();
                            let mut cfg2 = cfg.clone();
                            // an extra untracked leaf holding exactly the generic seed values, in slot nl
                            cfg2.leaves.push(LeafSpec { dims: pool[0].dims.clone(), vals: crate::prog::seed_vals(n_root, 1), tracked: false });
                            let shift = |v: usize| if v < nl { v } else { v + 1 };
                            let mk = |kind: u8| -> (Script, Vec<Option<usize>>) {
                                let mut acts = Vec::new();
                                let mut seeds: Vec<Option<usize>> = Vec::new();
                                for (kk, n2) in p.nodes.iter().enumerate() {
                                    let args: Vec<u8> = n2.args.iter().map(|x| shift(*x) as u8).collect();
                                    acts.push(Act::Build { op: ops.iter().position(|o| o == &n2.op).unwrap() as u8, args: args.into(), dst: shift(nl + kk) as u8 });
                                    seeds.push(None);
                                }
                                let rs = shift(root) as u8;
                                let g_slot = nv + 1;
                                match kind {
                                    // fresh generic seed
                                    0 => {
                                        acts.push(Act::Backward { slot: rs, seed: 1 });
                                        seeds.push(None);
                                    }
                                    // a clone of the kept handle with the same values
                                    1 => {
                                        acts.push(Act::Backward { slot: rs, seed: 3 });
                                        seeds.push(Some(nl));
                                    }
                                    // two passes without a seed
                                    2 => {
                                        acts.push(Act::Backward { slot: rs, seed: 0 });
                                        seeds.push(None);
                                        acts.push(Act::Backward { slot: rs, seed: 0 });
                                        seeds.push(None);
                                    }
                                    // a pass, then an optimizer update of the tracked leaves
                                    4 | 5 => {
                                        acts.push(Act::Backward { slot: rs, seed: 0 });
                                        seeds.push(None);
                                        let tl: Vec<u8> = (0..nl).filter(|i| tracked[*i]).map(|i| i as u8).collect();
                                        if kind == 5 {
                                            // the caller holds on to a fetched gradient while the optimizer runs
                                            acts.push(Act::Fetch { slot: tl[0], dst: g_slot as u8 });
                                            seeds.push(None);
                                        }
                                        acts.push(Act::Update { slots: tl.into(), lr: 0 });
                                        seeds.push(None);
                                    }
                                    // a pass without a seed, then its gradient (all ones) fetched and fed back as the seed
                                    _ => {
                                        acts.push(Act::Backward { slot: rs, seed: 0 });
                                        seeds.push(None);
                                        acts.push(Act::Fetch { slot: rs, dst: g_slot as u8 });
                                        seeds.push(None);
                                        acts.push(Act::Backward { slot: rs, seed: 3 });
                                        seeds.push(Some(g_slot));
                                    }
                                }
                                let views = (0..nv).map(|v| vec![shift(v)]).collect();
                                (Script { acts, views, nslots: nv + 2 }, seeds)
                            };
                            let run2 = |sc: &Script, seeds: &Vec<Option<usize>>| -> Result<Vec<Option<Obs>>, String> {
                                run_catch(|| {
                                    let mut c = cfg2.clone();
                                    c.nslots = sc.nslots;
                                    let mut iw = IWorld::new(&c);
                                    for (k, a) in sc.acts.iter().enumerate() {
                                        iw.apply(&c, a, 100 + k, seeds[k]);
                                    }
                                    iw.observe()
                                })
                            };
                            let reached_leaf = (0..nl).any(|i| tracked[i] && p.reached(&mask, root)[i]);
                            let mut pairs: Vec<(u8, u8, &str)> = vec![(0u8, 1u8, "fresh seed vs clone of a kept handle"), (2, 3, "no seed twice vs fetched gradient fed back as the seed")];
                            if reached_leaf && (0..nl).filter(|i| tracked[*i]).next().map(|i| p.reached(&mask, root)[i]).unwrap_or(false) {
                                pairs.push((4, 5, "optimizer update with vs without a fetched gradient kept by the caller"));
                            }
                            for (ka, kb, what) in pairs {
                                let (sa, za) = mk(ka);
                                let (sb, zb) = mk(kb);
                                l.transitions += 2;
                                l.validated += 1;
                                match (run2(&sa, &za), run2(&sb, &zb)) {
                                    (Ok(oa), Ok(ob)) => {
                                        for v in 0..nv {
                                            if let (Some(x), Some(y)) = (&oa[sa.views[v][0]], &ob[sb.views[v][0]]) {
                                                if let Err(e) = same_obs(x, y) {
                                                    l.violation("seed-handle", case(), format!("v{}: {}: {}", v, what, e));
                                                    break;
                                                }
                                            }
                                        }
                                    }
                                    (Err(e), _) | (_, Err(e)) => {
                                        l.violation("seed-handle", case(), format!("{}: panicked: {}", what, e));
                                    }
                                }
                                let _ = take_user_log();
                            }
                        }
                    }
                    // an untracked clone used as an operand behaves exactly like an independent untracked
                    // copy of the values - also in a second pass over the same graph
                    for (k, node) in p.nodes.iter().enumerate() {
                        for (pos, &a) in node.args.iter().enumerate() {
                            if a >= p.nl() || !tracked[a] {
                                continue;
                            }
                            let case = || format!("{} mask={:03b} root=v{} frozen-alias(node{},arg{}) two passes", p.describe(), m, root, k, pos).replace(' ', "");
                            if !l.want(&case) {
                                continue;
                            }
                            // slots: values 0..nv, then untracked copies of the leaves, then one temporary
                            let nv = p.nv();
                            let copy_slot = nv + a;
                            let temp = nv + p.nl();
                            let mut cfg2 = cfg.clone();
                            for lf in pool.iter() {
                                cfg2.leaves.push(LeafSpec { dims: lf.dims.clone(), vals: lf.vals.clone(), tracked: false });
                            }
                            // the copies live right behind the original leaves in the initial state,
                            // so the op nodes are shifted by nl in these two scripts
                            let shift = |v: usize| if v < p.nl() { v } else { v + p.nl() };
                            let mk = |through_clone: bool| -> Script {
                                let mut acts = Vec::new();
                                for (kk, n2) in p.nodes.iter().enumerate() {
                                    let mut args: Vec<u8> = n2.args.iter().map(|x| shift(*x) as u8).collect();
                                    let mut drop_temp = false;
                                    if kk == k {
                                        if through_clone {
                                            acts.push(Act::Clone { src: a as u8, dst: (temp + p.nl()) as u8 });
                                            acts.push(Act::Flag { slot: (temp + p.nl()) as u8, kind: 1 });
                                            args[pos] = (temp + p.nl()) as u8;
                                            drop_temp = true;
                                        } else {
                                            args[pos] = (p.nl() + a) as u8;
                                        }
                                    }
                                    acts.push(Act::Build { op: ops.iter().position(|o| o == &n2.op).unwrap() as u8, args: args.into(), dst: shift(p.nl() + kk) as u8 });
                                    if drop_temp {
                                        acts.push(Act::Drop { slot: (temp + p.nl()) as u8 });
                                    }
                                }
                                acts.push(Act::Backward { slot: shift(root) as u8, seed: 0 });
                                acts.push(Act::Backward { slot: shift(root) as u8, seed: 0 });
                                let views = (0..nv).map(|v| vec![shift(v)]).collect();
                                Script { acts, views, nslots: temp + p.nl() + 1 }
                            };
                            let _ = copy_slot;
                            let (sa, sb) = (mk(true), mk(false));
                            l.transitions += 2;
                            l.validated += 1;
                            match (run_script(&cfg2, &sa), run_script(&cfg2, &sb)) {
                                (Ok(oa), Ok(ob)) => {
                                    for v in 0..nv {
                                        if let (Some(x), Some(y)) = (&oa[sa.views[v][0]], &ob[sb.views[v][0]]) {
                                            if let Err(e) = same_obs(y, x) {
                                                l.violation("frozen-alias", case(), format!("v{}: independent untracked copy vs untracked clone as operand: {}", v, e));
                                                break;
                                            }
                                        }
                                    }
                                }
                                (Err(e), _) | (_, Err(e)) => {
                                    l.violation("frozen-alias", case(), format!("panicked: {}", e));
                                }
                            }
                            let _ = take_user_log();
                        }
                    }
                    for combo in &combos {
                        let sc = match script(p, &ops, root, combo, &tracked) {
                            Some(s) => s,
                            None => continue,
                        };
                        let case = || format!("{} mask={:03b} root=v{} perturb={}", p.describe(), m, root, combo.iter().map(fmt_atom).collect::<Vec<_>>().join("+")).replace(' ', "");
                        if !l.want(&case) {
                            continue;
                        }
                        l.transitions += 1;
                        l.validated += 1;
                        match run_script(&cfg, &sc) {
                            Err(msg) => {
                                let _ = take_user_log();
                                l.violation("transparency", case(), format!("the perturbed program panicked: {}", msg));
                            }
                            Ok(obs) => {
                                let mut h = 0xcbf29ce484222325u64;
                                let mut bad = None;
                                for v in 0..p.nv() {
                                    let b = match &base[v] {
                                        Some(b) => b,
                                        None => continue,
                                    };
                                    for &s in &sc.views[v] {
                                        match &obs[s] {
                                            Some(o) => {
                                                fnv(&mut h, &digest_vals(&o.dims, &o.vals).to_le_bytes());
                                                if let Err(e) = same_obs(b, o) {
                                                    bad = Some(format!("v{} seen through slot {}: base vs perturbed: {}", v, s, e));
                                                }
                                            }
                                            None => bad = Some(format!("machinery: slot {} empty", s)),
                                        }
                                    }
                                }
                                l.outcome(h);
                                if let Some(b) = bad {
                                    l.violation("transparency", case(), b);
                                }
                            }
                        }
                        let _ = take_user_log();
                        l.sample(&case);
                    }
                }
            }
        };
        let mut g = Gen::new(pool.clone(), ops.clone(), gen_nodes, &mut sink);
        g.run();
        if ti == 0 {
            *progs.lock().unwrap() = g.stats.programs;
        }
    });
    total.merge(local);
    base_programs += *progs.lock().unwrap();
    }
    installed_gradient_cases(&mut total, var);
    let (_, singles_upto, pairs_upto) = (0, 3usize, if opts.tier == Tier::Quick { 2usize } else { 3 });
    let masks: Vec<u32> = vec![0b111, 0b011, 0b101];
    Explored {
        local: total,
        bounds: json!({"base_programs": base_programs, "max_nodes": 3, "ops": ["add", "mul", "neg", "umul", "and a second alphabet: axpy(0.1), mul, div (n <= 2)"], "masks": masks,
                       "perturbation_atoms": ["temporary clone of one operand", "variable cloned after creation, clone used for all / each single later use", "handle dropped right after its last use", "result re-bound over its first operand", "pass started from a clone of the root", "gradient read through a clone made before the pass", "gradient read through a clone made after the pass", "flag round trip that restores the handle's flags at any later point", "held alias with flipped flags", "alias re-flagged after the pass", "clone taken while the handle is paused, both resumed, clone used instead", "operand through an untracked clone vs an independent untracked copy, two passes", "seed given as a clone of a kept handle / as a fetched gradient vs a fresh seed", "optimizer update with vs without a fetched gradient kept alive"],
                       "deviation_bound": format!("every single atom for programs of <= {} nodes, every pair of atoms for programs of <= {} nodes", singles_upto, pairs_upto)}),
        rule: "every base program x masks x roots x every single (and pair of) handle perturbation(s): values and gradients of every handle surviving in the perturbed run, seen through every alias (main handle, persistent clone, clones made before/after the pass), must be bit-identical to the base run (implementation against implementation, no reference)".into(),
        exhaustive: true,
        assumptions: vec![],
    }
}
