//! C10 - gradients accumulate additively across passes; a finished pass leaves no residue (E3).

use crate::common::*;
use crate::machine::*;
use crate::ops::*;
use crate::Explored;
use serde_json::json;

pub fn same_shape_leaves(var: u64) -> Vec<LeafSpec> {
    vec![
        LeafSpec { dims: vec![2], vals: vec![2.0 + var as f64, 3.0], tracked: true },
        LeafSpec { dims: vec![2], vals: vec![5.0, -7.0 - var as f64], tracked: true },
        LeafSpec { dims: vec![2], vals: vec![-3.0, 4.0 + var as f64], tracked: false },
    ]
}

pub fn broadcast_leaves(var: u64) -> Vec<LeafSpec> {
    vec![
        LeafSpec { dims: vec![2, 3], vals: vec![2.0, 3.0 + var as f64, 1.0, 5.0, -1.0, 4.0], tracked: true },
        LeafSpec { dims: vec![3], vals: vec![1.0, 2.0 + var as f64, -2.0], tracked: true },
        LeafSpec { dims: vec![2, 1], vals: vec![3.0, -2.0], tracked: false },
    ]
}

pub fn long_leaves(var: u64) -> Vec<LeafSpec> {
    vec![
        LeafSpec { dims: vec![11], vals: (0..11).map(|i| ((i * 7 + 2) % 11) as f64 - 4.0 + var as f64).collect(), tracked: true },
        LeafSpec { dims: vec![11], vals: (0..11).map(|i| ((i * 5 + 1) % 9) as f64 - 3.0).collect(), tracked: true },
        LeafSpec { dims: vec![11], vals: (0..11).map(|i| ((i * 3) % 7) as f64 + 1.0).collect(), tracked: false },
    ]
}

pub fn dense_leaves(var: u64) -> Vec<LeafSpec> {
    vec![
        LeafSpec { dims: vec![2, 3], vals: vec![1.0, -2.0, 3.0 + var as f64, 0.5, 1.5, -1.0], tracked: false },
        LeafSpec { dims: vec![2, 3], vals: vec![2.0, 1.0, -1.0, -3.0, 0.5 + var as f64, 2.0], tracked: true },
        LeafSpec { dims: vec![2], vals: vec![0.5, -1.5], tracked: true },
    ]
}

pub fn base_cfg(name: &str, leaves: Vec<LeafSpec>, ops: Vec<OpK>, nslots: usize) -> MCfg {
    MCfg {
        name: name.to_string(),
        leaves,
        nslots,
        ops,
        bounds: Bounds::default(),
        seeds: vec![0, 1],
        flag_kinds: vec![],
        clear_vias: vec![0, 1],
        rebind: false,
        touch_leaves: false,
        check_ref: true,
        check_snapshot: false,
        check_fresh_diff: false,
        check_ownership: false,
        check_log: false,
        merged: true,
        update_slots: vec![],
    }
}

pub fn machines(opts: &Opts) -> Vec<MCfg> {
    let var = opts.seed % 3;
    let core = vec![OpK::Add, OpK::Mul, OpK::Neg];
    let zero = vec![OpK::Mul, OpK::Scale(0.0), OpK::Relu];
    let wide = vec![OpK::Add, OpK::Mul, OpK::Div, OpK::Sum(1), OpK::UMul];
    let mut out = Vec::new();
    let b = |builds, passes, clears, drops, depth| Bounds { builds, passes, clears, drops, depth, ..Bounds::default() };
    match opts.tier {
        Tier::Quick => {
            let mut m = base_cfg("N2P2C1D1/core", same_shape_leaves(var), core.clone(), 5);
            m.bounds = b(2, 2, 1, 1, 6);
            m.check_fresh_diff = true;
            out.push(m);
            let mut m = base_cfg("N2P2C1/zero-adjoints", same_shape_leaves(var), zero.clone(), 5);
            m.bounds = b(2, 2, 1, 0, 5);
            m.seeds = vec![0, 2];
            m.check_fresh_diff = true;
            out.push(m);
            let mut m = base_cfg("N2P2/broadcast", broadcast_leaves(var), wide.clone(), 5);
            m.bounds = b(2, 2, 0, 0, 4);
            m.seeds = vec![0];
            m.check_fresh_diff = true;
            out.push(m);
            let mut m = base_cfg("N2P2C1D1/unmerged", same_shape_leaves(var), vec![OpK::Add, OpK::Mul], 5);
            m.bounds = b(2, 2, 1, 1, 5);
            m.seeds = vec![0];
            m.merged = false;
            out.push(m);
            // the dense-layer graph x W^T + b with an untracked input, differentiated repeatedly
            let mut m = base_cfg("N2P2C1/dense-like", dense_leaves(var), vec![OpK::Matmul { ta: false, tb: true, bias: true }, OpK::Relu, OpK::Mul], 5);
            m.bounds = b(2, 2, 1, 0, 5);
            m.seeds = vec![0, 1];
            m.check_fresh_diff = true;
            out.push(m);
            // the caller keeps the seed (the same array seeds several passes) and feeds fetched gradients back as seeds
            let mut m = base_cfg("N1P3G1/caller-held-seeds", same_shape_leaves(var), vec![OpK::Add, OpK::Mul, OpK::Reshape(vec![1, 2])], 6);
            m.bounds = Bounds { builds: 1, passes: 3, fetches: 1, clears: 1, depth: 5, ..Bounds::default() };
            m.seeds = vec![0, 3];
            out.push(m);
            // arrays longer than any block or lane width, accumulated over passes and consumers
            let mut m = base_cfg("N2P2/long-arrays", long_leaves(var), vec![OpK::Add, OpK::Mul], 5);
            m.bounds = b(2, 2, 0, 0, 4);
            m.seeds = vec![0];
            out.push(m);
            // an optimizer update between two passes over a graph that still references the old parameter
            let mut m = base_cfg("N2P2U1/update-between-passes", same_shape_leaves(var), vec![OpK::Mul, OpK::Add], 5);
            m.bounds = Bounds { builds: 2, passes: 2, updates: 1, depth: 5, ..Bounds::default() };
            m.seeds = vec![0];
            m.update_slots = vec![0, 1];
            out.push(m);
            // operations whose derivative closures own data computed at forward time (cached exponentials,
            // cached sigmoid values, the collapsed dimensions of a sum): repeated passes with non-unit
            // adjoints must leave that data as it was
            let small = vec![
                LeafSpec { dims: vec![2], vals: vec![0.5 + 0.25 * var as f64, -1.0], tracked: true },
                LeafSpec { dims: vec![2], vals: vec![1.5, 0.25], tracked: true },
                LeafSpec { dims: vec![2], vals: vec![-0.5, 2.0], tracked: false },
            ];
            let mut m = base_cfg("N2P2C1/closure-owned-data", small, vec![OpK::Exp, OpK::Sigmoid, OpK::Scale(3.0), OpK::Sum(1)], 5);
            m.bounds = Bounds { builds: 2, passes: 2, clears: 1, depth: 5, ..Bounds::default() };
            m.seeds = vec![0, 1];
            out.push(m);
            // handles cloned, flagged and dropped between passes
            let two: Vec<LeafSpec> = same_shape_leaves(var).into_iter().take(2).collect();
            let mut m = base_cfg("N1P2F2K1D1/handles-between-passes", two, vec![OpK::Mul], 4);
            m.bounds = Bounds { builds: 1, passes: 2, flags: 2, clones: 1, drops: 1, depth: 6, ..Bounds::default() };
            m.seeds = vec![0];
            m.flag_kinds = vec![0, 1, 2, 3];
            m.touch_leaves = true;
            out.push(m);
        }
        Tier::Thorough => {
            // closures that own forward-time data, three passes, products and softmax too
            let small = vec![
                LeafSpec { dims: vec![2], vals: vec![0.5 + 0.25 * var as f64, -1.0], tracked: true },
                LeafSpec { dims: vec![2], vals: vec![1.5, 0.25], tracked: true },
                LeafSpec { dims: vec![2], vals: vec![-0.5, 2.0], tracked: false },
            ];
            let mut m = base_cfg("N2P3C1/closure-owned-data", small, vec![OpK::Exp, OpK::Sigmoid, OpK::Scale(3.0), OpK::Mul, OpK::Sum(1), OpK::Softmax], 5);
            m.bounds = Bounds { builds: 2, passes: 3, clears: 1, depth: 5, ..Bounds::default() };
            m.seeds = vec![0, 1];
            out.push(m);
            let mut m = base_cfg("N3P2C1/core", same_shape_leaves(var), core.clone(), 6);
            m.bounds = b(3, 2, 1, 0, 6);
            m.seeds = vec![0];
            m.check_fresh_diff = true;
            out.push(m);
            let mut m = base_cfg("N2P3C2D1/core", same_shape_leaves(var), core.clone(), 5);
            m.bounds = b(2, 3, 2, 1, 8);
            m.seeds = vec![0];
            m.check_fresh_diff = true;
            out.push(m);
            let mut m = base_cfg("N2P2C1D2/core-seeds", same_shape_leaves(var), core.clone(), 5);
            m.bounds = b(2, 2, 1, 2, 7);
            m.seeds = vec![0, 1, 2];
            m.check_fresh_diff = true;
            out.push(m);
            let mut m = base_cfg("N3P2/zero-adjoints", same_shape_leaves(var), zero.clone(), 6);
            m.bounds = b(3, 2, 0, 0, 5);
            m.seeds = vec![0, 2];
            m.check_fresh_diff = true;
            out.push(m);
            let mut m = base_cfg("N2P2C1D1/broadcast", broadcast_leaves(var), wide.clone(), 5);
            m.bounds = b(2, 2, 1, 1, 6);
            m.check_fresh_diff = true;
            out.push(m);
            let mut m = base_cfg("N2P2C1D1/unmerged", same_shape_leaves(var), core.clone(), 5);
            m.bounds = b(2, 2, 1, 1, 6);
            m.seeds = vec![0];
            m.merged = false;
            out.push(m);
            let mut m = base_cfg("N1P3G2C1/caller-held-seeds", same_shape_leaves(var), vec![OpK::Add, OpK::Mul, OpK::Reshape(vec![1, 2])], 7);
            m.bounds = Bounds { builds: 1, passes: 3, fetches: 2, clears: 1, depth: 7, ..Bounds::default() };
            m.seeds = vec![0, 3];
            out.push(m);
            let mut m = base_cfg("N2P2C1D1/long-arrays", long_leaves(var), vec![OpK::Add, OpK::Mul, OpK::Neg], 5);
            m.bounds = b(2, 2, 1, 1, 6);
            m.seeds = vec![0];
            out.push(m);
            let mut m = base_cfg("N2P2C1D1/dense-like", dense_leaves(var), vec![OpK::Matmul { ta: false, tb: true, bias: true }, OpK::Relu, OpK::Mul, OpK::Sum(1)], 5);
            m.bounds = b(2, 2, 1, 1, 6);
            m.seeds = vec![0, 1];
            m.check_fresh_diff = true;
            out.push(m);
            let mut m = base_cfg("N2P3U2/update-between-passes", same_shape_leaves(var), vec![OpK::Mul, OpK::Add], 5);
            m.bounds = Bounds { builds: 2, passes: 3, updates: 2, depth: 6, ..Bounds::default() };
            m.seeds = vec![0];
            m.update_slots = vec![0, 1];
            out.push(m);
            let two: Vec<LeafSpec> = same_shape_leaves(var).into_iter().take(2).collect();
            let mut m = base_cfg("N1P3F2K1D1C1/handles-between-passes", two, vec![OpK::Mul], 4);
            m.bounds = Bounds { builds: 1, passes: 3, flags: 2, clones: 1, drops: 1, clears: 1, depth: 7, ..Bounds::default() };
            m.seeds = vec![0];
            m.flag_kinds = vec![0, 1, 2, 3];
            m.touch_leaves = true;
            out.push(m);
        }
    }
    out
}

pub fn run_all(opts: &Opts, cfgs: Vec<MCfg>) -> (Local, Vec<serde_json::Value>) {
    let mut total = Local::new(opts.only.clone());
    let mut stats = Vec::new();
    let filter = std::env::var("VERIF_MACHINE").ok();
    for cfg in cfgs {
        // debugging aid: VERIF_MACHINE=<substring> runs only the machines whose name contains it
        if let Some(f) = &filter {
            if !cfg.name.contains(f.as_str()) {
                continue;
            }
        }
        let name = cfg.name.clone();
        let bounds = format!("{:?}", cfg.bounds);
        let ops: Vec<String> = cfg.ops.iter().map(|o| o.name()).collect();
        let merged = cfg.merged;
        let t0 = std::time::Instant::now();
        let r1 = run_machine(opts, cfg.clone(), &mut total);
        // determinism: a second run must visit the same number of states (stateright re-derives paths by re-execution)
        let mut scratch = Local::new(opts.only.clone());
        let deterministic = if opts.only.is_none() && r1.states < 400_000 {
            let r2 = run_machine(opts, cfg.clone(), &mut scratch);
            if r2.states != r1.states {
                machinery_error(&format!("machine {}: two runs visited {} and {} states (nondeterministic model)", name, r1.states, r2.states));
            }
            true
        } else {
            false
        };
        stats.push(json!({"machine": name, "bounds": bounds, "ops": ops, "merged_on_reference_state_and_probe": merged, "states": r1.states,
                          "generated": r1.transitions, "transitions_executed_on_impl": r1.executed, "histories_out_of_domain": r1.out_of_domain,
                          "max_depth": r1.max_depth, "states_per_depth": r1.depth_hist, "run_twice_same_state_count": deterministic,
                          "wall_s": t0.elapsed().as_secs_f64()}));
    }
    (total, stats)
}

pub fn explore(opts: &Opts) -> Explored {
    let (local, stats) = run_all(opts, machines(opts));
    Explored {
        local,
        bounds: json!({"machines": stats, "seeds": "0 = omitted, 1 = generic, 2 = zeros", "clear": ["replace_gradient", "gradient_mut"]}),
        rule: "explicit-state BFS over histories of build / backward(any live handle, seed) / clear / drop on a pool of leaves (a, b tracked, c untracked); every transition replays the history on the real library; after every step each live handle's gradient equals the sum over the passes since its last clear of the reference single-pass adjoints, and the increment of each pass equals what the same pass deposits on a freshly built copy of the graph".into(),
        exhaustive: true,
        assumptions: vec![
            "states are merged when the reference state and the probed hidden bookkeeping are equal; one machine per tier runs unmerged (history is the state) as a cross-check".into(),
            "seeds are untracked graph-free arrays".into(),
        ],
    }
}
