//! C10 - gradients accumulate additively across passes; a finished pass leaves no residue (E3).

use crate::common::*;
use crate::machine::*;
use crate::ops::*;
use crate::Explored;
use serde_json::json;

pub fn same_shape_leaves(var: u64) -> Vec<LeafSpec> {
    vec![
        LeafSpec { dims: vec![2], vals: vec![2.0 + var as f64, 3.0], tracked: true },
        LeafSpec { dims: vec![2], vals: vec![5.0, -7.0 - var as f64], tracked: true },
        LeafSpec { dims: vec![2], vals: vec![-3.0, 4.0 + var as f64], tracked: false },
    ]
}

pub fn broadcast_leaves(var: u64) -> Vec<LeafSpec> {
    vec![
        LeafSpec { dims: vec![2, 3], vals: vec![2.0, 3.0 + var as f64, 1.0, 5.0, -1.0, 4.0], tracked: true },
        LeafSpec { dims: vec![3], vals: vec![1.0, 2.0 + var as f64, -2.0], tracked: true },
        LeafSpec { dims: vec![2, 1], vals: vec![3.0, -2.0], tracked: false },
    ]
}

pub fn long_leaves(var: u64) -> Vec<LeafSpec> {
    vec![
        LeafSpec { dims: vec![11], vals: (0..11).map(|i| ((i * 7 + 2) % 11) as f64 - 4.0 + var as f64).collect(), tracked: true },
        LeafSpec { dims: vec![11], vals: (0..11).map(|i| ((i * 5 + 1) % 9) as f64 - 3.0).collect(), tracked: true },
        LeafSpec { dims: vec![11], vals: (0..11).map(|i| ((i * 3) % 7) as f64 + 1.0).collect(), tracked: false },
    ]
}

pub fn dense_leaves(var: u64) -> Vec<LeafSpec> {
    vec![
        LeafSpec { dims: vec![2, 3], vals: vec![1.0, -2.0, 3.0 + var as f64, 0.5, 1.5, -1.0], tracked: false },
        LeafSpec { dims: vec![2, 3], vals: vec![2.0, 1.0, -1.0, -3.0, 0.5 + var as f64, 2.0], tracked: true },
        LeafSpec { dims: vec![2], vals: vec![0.5, -1.5], tracked: true },
    ]
}

pub fn base_cfg(name: &str, leaves: Vec<LeafSpec>, ops: Vec<OpK>, nslots: usize) -> MCfg {
    MCfg {
        name: name.to_string(),
        leaves,
        nslots,
        ops,
        bounds: Bounds::default(),
        seeds: vec![0, 1],
        flag_kinds: vec![],
        clear_vias: vec![0, 1],
        rebind: false,
        touch_leaves: false,
        check_ref: true,
        check_snapshot: false,
        check_fresh_diff: false,
        check_ownership: false,
        check_log: false,
        merged: true,
        update_slots: vec![],
    }
}

pub fn machines(opts: &Opts) -> Vec<MCfg> {
    let var = opts.seed % 3;
    let core = vec![OpK::Add, OpK::Mul, OpK::Neg];
    let zero = vec![OpK::Mul, OpK::Scale(0.0), OpK::Relu];
    let wide = vec![OpK::Add, OpK::Mul, OpK::Div, OpK::Sum(1), OpK::UMul];
    let mut out = Vec::new();
    let b = |builds, passes, clears, drops, depth| Bounds { builds, passes, clears, drops, depth, ..Bounds::default() };
    match opts.tier {
        Tier::Quick => {
            let mut m = base_cfg("N2P2C1D1/core", same_shape_leaves(var), core.clone(), 5);
            m.bounds = b(2, 2, 1, 1, 6);
            m.check_fresh_diff = true;
            out.push(m);
            let mut m = base_cfg("N2P2C1/zero-adjoints", same_shape_leaves(var), zero.clone(), 5);
            m.bounds = b(2, 2, 1, 0, 5);
            m.seeds = vec![0, 2];
            m.check_fresh_diff = true;
            out.push(m);
            let mut m = base_cfg("N2P2/broadcast", broadcast_leaves(var), wide.clone(), 5);
            m.bounds = b(2, 2, 0, 0, 4);
            m.seeds = vec![0];
            m.check_fresh_diff = true;
            out.push(m);
            let mut m = base_cfg("N2P2C1D1/unmerged", same_shape_leaves(var), vec![OpK::Add, OpK::Mul], 5);
            m.bounds = b(2, 2, 1, 1, 5);
            m.seeds = vec![0];
            m.merged = false;
            out.push(m);
            // the dense-layer graph x W^T + b with an untracked input, differentiated repeatedly
            let mut m = base_cfg("N2P2C1/dense-like", dense_leaves(var), vec![OpK::Matmul { ta: false, tb: true, bias: true }, OpK::Relu, OpK::Mul], 5);
            m.bounds = b(2, 2, 1, 0, 5);
            m.seeds = vec![0, 1];
            m.check_fresh_diff = true;
            out.push(m);
            // the caller keeps the seed (the same array seeds several passes) and feeds fetched gradients back as seeds
            let mut m = base_cfg("N1P3G1/caller-held-seeds", same_shape_leaves(var), vec![OpK::Add, OpK::Mul, OpK::Reshape(vec![1, 2])], 6);
            m.bounds = Bounds { builds: 1, passes: 3, fetches: 1, clears: 1, depth: 5, ..Bounds::default() };
            m.seeds = vec![0, 3];
            out.push(m);
            // arrays longer than any block or lane width, accumulated over passes and consumers
            let mut m = base_cfg("N2P2/long-arrays", long_leaves(var), vec![OpK::Add, OpK::Mul], 5);
            m.bounds = b(2, 2, 0, 0, 4);
            m.seeds = vec![0];
            out.push(m);
            // an optimizer update between two passes over a graph that still references the old parameter
            let mut m = base_cfg("N2P2U1/update-between-passes", same_shape_leaves(var), vec![OpK::Mul, OpK::Add], 5);
            m.bounds = Bounds { builds: 2, passes: 2, updates: 1, depth: 5, ..Bounds::default() };
            m.seeds = vec![0];
            m.update_slots = vec![0, 1];
            out.push(m);
            // operations whose derivative closures own data computed at forward time (cached exponentials,
            // cached sigmoid values, the collapsed dimensions of a sum): repeated passes with non-unit
            // adjoints must leave that data as it was
            let small = vec![
                LeafSpec { dims: vec![2], vals: vec![0.5 + 0.25 * var as f64, -1.0], tracked: true },
                LeafSpec { dims: vec![2], vals: vec![1.5, 0.25], tracked: true },
                LeafSpec { dims: vec![2], vals: vec![-0.5, 2.0], tracked: false },
            ];
            let mut m = base_cfg("N2P2C1/closure-owned-data", small, vec![OpK::Exp, OpK::Sigmoid, OpK::Scale(3.0), OpK::Sum(1)], 5);
            m.bounds = Bounds { builds: 2, passes: 2, clears: 1, depth: 5, ..Bounds::default() };
            m.seeds = vec![0, 1];
            out.push(m);
            // handles cloned, flagged and dropped between passes
            let two: Vec<LeafSpec> = same_shape_leaves(var).into_iter().take(2).collect();
            let mut m = base_cfg("N1P2F2K1D1/handles-between-passes", two, vec![OpK::Mul], 4);
            m.bounds = Bounds { builds: 1, passes: 2, flags: 2, clones: 1, drops: 1, depth: 6, ..Bounds::default() };
            m.seeds = vec![0];
            m.flag_kinds = vec![0, 1, 2, 3];
            m.touch_leaves = true;
            out.push(m);
            // a result detached (or re-tracked) between its construction and its use, then two passes:
            // the first must leave nothing that the second picks up (seeded change C18-r9m1)
            let two: Vec<LeafSpec> = same_shape_leaves(var).into_iter().take(2).collect();
            let mut m = base_cfg("N2F1P2/detached-intermediate", two, vec![OpK::Mul], 4);
            m.bounds = Bounds { builds: 2, passes: 2, flags: 1, depth: 5, ..Bounds::default() };
            m.seeds = vec![0];
            m.flag_kinds = vec![1, 2, 3];
            out.push(m);
        }
        Tier::Thorough => {
            {
                let two: Vec<LeafSpec> = same_shape_leaves(var).into_iter().take(2).collect();
                let mut m = base_cfg("N2F1P3C1/detached-intermediate", two, vec![OpK::Mul, OpK::Add], 5);
                m.bounds = Bounds { builds: 2, passes: 3, flags: 1, clears: 1, depth: 7, ..Bounds::default() };
                m.seeds = vec![0];
                m.flag_kinds = vec![1, 2, 3];
                out.push(m);
            }
            // closures that own forward-time data, three passes, products and softmax too
            let small = vec![
                LeafSpec { dims: vec![2], vals: vec![0.5 + 0.25 * var as f64, -1.0], tracked: true },
                LeafSpec { dims: vec![2], vals: vec![1.5, 0.25], tracked: true },
                LeafSpec { dims: vec![2], vals: vec![-0.5, 2.0], tracked: false },
            ];
            let mut m = base_cfg("N2P3C1/closure-owned-data", small, vec![OpK::Exp, OpK::Sigmoid, OpK::Scale(3.0), OpK::Mul, OpK::Sum(1), OpK::Softmax], 5);
            m.bounds = Bounds { builds: 2, passes: 3, clears: 1, depth: 5, ..Bounds::default() };
            m.seeds = vec![0, 1];
            out.push(m);
            let mut m = base_cfg("N3P2C1/core", same_shape_leaves(var), core.clone(), 6);
            m.bounds = b(3, 2, 1, 0, 6);
            m.seeds = vec![0];
            m.check_fresh_diff = true;
            out.push(m);
            let mut m = base_cfg("N2P3C2D1/core", same_shape_leaves(var), core.clone(), 5);
            m.bounds = b(2, 3, 2, 1, 8);
            m.seeds = vec![0];
            m.check_fresh_diff = true;
            out.push(m);
            let mut m = base_cfg("N2P2C1D2/core-seeds", same_shape_leaves(var), core.clone(), 5);
            m.bounds = b(2, 2, 1, 2, 7);
            m.seeds = vec![0, 1, 2];
            m.check_fresh_diff = true;
            out.push(m);
            let mut m = base_cfg("N3P2/zero-adjoints", same_shape_leaves(var), zero.clone(), 6);
            m.bounds = b(3, 2, 0, 0, 5);
            m.seeds = vec![0, 2];
            m.check_fresh_diff = true;
            out.push(m);
            let mut m = base_cfg("N2P2C1D1/broadcast", broadcast_leaves(var), wide.clone(), 5);
            m.bounds = b(2, 2, 1, 1, 6);
            m.check_fresh_diff = true;
            out.push(m);
            let mut m = base_cfg("N2P2C1D1/unmerged", same_shape_leaves(var), core.clone(), 5);
            m.bounds = b(2, 2, 1, 1, 6);
            m.seeds = vec![0];
            m.merged = false;
            out.push(m);
            let mut m = base_cfg("N1P3G2C1/caller-held-seeds", same_shape_leaves(var), vec![OpK::Add, OpK::Mul, OpK::Reshape(vec![1, 2])], 7);
            m.bounds = Bounds { builds: 1, passes: 3, fetches: 2, clears: 1, depth: 7, ..Bounds::default() };
            m.seeds = vec![0, 3];
            out.push(m);
            let mut m = base_cfg("N2P2C1D1/long-arrays", long_leaves(var), vec![OpK::Add, OpK::Mul, OpK::Neg], 5);
            m.bounds = b(2, 2, 1, 1, 6);
            m.seeds = vec![0];
            out.push(m);
            let mut m = base_cfg("N2P2C1D1/dense-like", dense_leaves(var), vec![OpK::Matmul { ta: false, tb: true, bias: true }, OpK::Relu, OpK::Mul, OpK::Sum(1)], 5);
            m.bounds = b(2, 2, 1, 1, 6);
            m.seeds = vec![0, 1];
            m.check_fresh_diff = true;
            out.push(m);
            let mut m = base_cfg("N2P3U2/update-between-passes", same_shape_leaves(var), vec![OpK::Mul, OpK::Add], 5);
            m.bounds = Bounds { builds: 2, passes: 3, updates: 2, depth: 6, ..Bounds::default() };
            m.seeds = vec![0];
            m.update_slots = vec![0, 1];
            out.push(m);
            let two: Vec<LeafSpec> = same_shape_leaves(var).into_iter().take(2).collect();
            let mut m = base_cfg("N1P3F2K1D1C1/handles-between-passes", two, vec![OpK::Mul], 4);
            m.bounds = Bounds { builds: 1, passes: 3, flags: 2, clones: 1, drops: 1, clears: 1, depth: 7, ..Bounds::default() };
            m.seeds = vec![0];
            m.flag_kinds = vec![0, 1, 2, 3];
            m.touch_leaves = true;
            out.push(m);
        }
    }
    out
}

pub fn run_all(opts: &Opts, cfgs: Vec<MCfg>) -> (Local, Vec<serde_json::Value>) {
    let mut total = Local::new(opts.only.clone());
    let mut stats = Vec::new();
    let filter = std::env::var("VERIF_MACHINE").ok();
    for cfg in cfgs {
        // debugging aid: VERIF_MACHINE=<substring> runs only the machines whose name contains it
        if let Some(f) = &filter {
            if !cfg.name.contains(f.as_str()) {
                continue;
            }
        }
        let name = cfg.name.clone();
        let bounds = format!("{:?}", cfg.bounds);
        let ops: Vec<String> = cfg.ops.iter().map(|o| o.name()).collect();
        let merged = cfg.merged;
        let t0 = std::time::Instant::now();
        let r1 = run_machine(opts, cfg.clone(), &mut total);
        // determinism: a second run must visit the same number of states (stateright re-derives paths by re-execution)
        let mut scratch = Local::new(opts.only.clone());
        let deterministic = if opts.only.is_none() && r1.states < 400_000 {
            let r2 = run_machine(opts, cfg.clone(), &mut scratch);
            if r2.states != r1.states {
                machinery_error(&format!("machine {}: two runs visited {} and {} states (nondeterministic model)", name, r1.states, r2.states));
            }
            true
        } else {
            false
        };
        stats.push(json!({"machine": name, "bounds": bounds, "ops": ops, "merged_on_reference_state_and_probe": merged, "states": r1.states,
                          "generated": r1.transitions, "transitions_executed_on_impl": r1.executed, "histories_out_of_domain": r1.out_of_domain,
                          "max_depth": r1.max_depth, "states_per_depth": r1.depth_hist, "run_twice_same_state_count": deterministic,
                          "wall_s": t0.elapsed().as_secs_f64()}));
    }
    (total, stats)
}

/// The same additivity through a Model: after any sequence of forward / backward calls without an
/// update (and with hand-made passes over the parameters in between), every parameter's gradient is
/// the sum of what each backward call deposits on a fresh model brought to the same point.
fn explore_model_accumulation(opts: &Opts) -> Local {
    use crate::nn::{build_layers, Act, ActStore, CostK, LayerCfg};
    use corgi::array::Array;
    use corgi::numbers::Float;
    let var = opts.seed % 3;
    let stacks: Vec<Vec<LayerCfg>> = vec![
        vec![LayerCfg::Dense { inp: 2, out: 2, act: Act::None }],
        vec![LayerCfg::Dense { inp: 2, out: 3, act: Act::Sigmoid }, LayerCfg::Dense { inp: 3, out: 2, act: Act::None }],
    ];
    // call sequences: F = forward (batch k), B = backward, P = a penalty pass (sum of squares of the
    // first parameter) run by hand on the parameter; every sequence of length <= 5 (thorough 6) with
    // B only after an F
    let max_len = if opts.tier == Tier::Quick { 5 } else { 6 };
    let mut seqs: Vec<Vec<u8>> = vec![vec![]];
    let mut all: Vec<Vec<u8>> = Vec::new();
    for _ in 0..max_len {
        let mut next = Vec::new();
        for sq in &seqs {
            for a in 0..3u8 {
                if a == 1 && !sq.contains(&0) {
                    continue;
                }
                let mut t = sq.clone();
                t.push(a);
                if t.iter().filter(|c| **c != 0).count() >= 2 && a != 0 {
                    all.push(t.clone());
                }
                next.push(t);
            }
        }
        seqs = next;
    }
    let items: Vec<(usize, Vec<u8>)> = (0..stacks.len()).flat_map(|k| all.iter().map(move |s| (k, s.clone()))).collect();
    par(opts, items.len(), |i, l| {
        let (si, seq) = &items[i];
        let cfgs = &stacks[*si];
        let case = || format!("model {} calls {}", si, seq.iter().map(|c| ["F", "B", "P"][*c as usize]).collect::<String>());
        if !l.want(&case) {
            return;
        }
        l.states += 1;
        l.validated += 1;
        // run the calls; `deposit_only`: clear every parameter's gradient right before that call, so
        // that what remains afterwards is the deposit of that call alone
        let run_seq = |seq: &Vec<u8>, deposit_only: Option<usize>| -> Result<Vec<Option<Vec<Float>>>, String> {
            run_catch(|| {
                let store = ActStore::new(cfgs);
                let mut layers = build_layers(cfgs, &store, 4 + var);
                let handles: Vec<Array> = layers.iter_mut().flat_map(|ly| ly.parameters().into_iter().map(|p| p.clone()).collect::<Vec<_>>()).collect();
                let gd = corgi::optimizer::gd::GradientDescent::new(0.5);
                let cost = CostK::Mse.make();
                {
                    let refs: Vec<&mut dyn corgi::layer::Layer> = layers.iter_mut().map(|b| &mut **b as &mut dyn corgi::layer::Layer).collect();
                    let mut model = corgi::model::Model::new(refs, &gd, &cost);
                    let mut nf = 0usize;
                    for (k, c) in seq.iter().enumerate() {
                        if deposit_only == Some(k) {
                            for h in &handles {
                                let _ = h.replace_gradient();
                            }
                        }
                        match c {
                            0 => {
                                nf += 1;
                                let _ = model.forward(Array::from((vec![2, 2], vec![0.5 + nf as Float, -1.0, 0.25 * nf as Float, 2.0])));
                            }
                            1 => {
                                let _ = model.backward(Array::from((vec![2, 2], vec![0.25, 0.5 + 0.25 * nf as Float, -0.5, 1.0])));
                            }
                            _ => {
                                let p = &handles[0];
                                let pen = p * p;
                                pen.backward(None);
                            }
                        }
                        if deposit_only == Some(k) {
                            break;
                        }
                    }
                }
                handles.iter().map(|h| h.gradient().as_ref().map(|g| g.values().to_vec())).collect()
            })
        };
        let run = |deposit_only: Option<usize>| run_seq(seq, deposit_only);
        l.transitions += 1;
        let total = match run(None) {
            Ok(t) => t,
            Err(m) => {
                l.violation("model-accumulation", case(), format!("panicked: {}", m));
                return;
            }
        };
        // expected: the element-wise sum, in call order, of the single deposits
        let mut expect: Vec<Option<Vec<Float>>> = vec![None; total.len()];
        for (k, c) in seq.iter().enumerate() {
            if *c == 0 {
                continue;
            }
            l.transitions += 1;
            match run(Some(k)) {
                Err(m) => {
                    l.violation("model-accumulation", case(), format!("panicked: {}", m));
                    return;
                }
                Ok(dep) => {
                    // what a call deposits does not depend on the passes that ran before it: the same call
                    // after the forwards alone (all earlier backward and penalty passes removed) deposits
                    // the same
                    let mut reduced: Vec<u8> = seq[..k].iter().cloned().filter(|c| *c == 0).collect();
                    reduced.push(*c);
                    let rk = reduced.len() - 1;
                    l.transitions += 1;
                    match run_seq(&reduced, Some(rk)) {
                        Err(m) => {
                            l.violation("model-accumulation", case(), format!("panicked: {}", m));
                            return;
                        }
                        Ok(alone) => {
                            let same = alone.len() == dep.len()
                                && alone.iter().zip(&dep).all(|(a, b)| match (a, b) {
                                    (None, None) => true,
                                    (Some(a), Some(b)) => a.len() == b.len() && a.iter().zip(b).all(|(p, q)| p.to_bits() == q.to_bits()),
                                    _ => false,
                                });
                            if !same {
                                l.violation("model-accumulation", case(), format!("call {} deposits {:?} after the earlier passes, but {:?} when only the forward passes ran before it", k, dep, alone));
                                return;
                            }
                        }
                    }
                    for (e, d) in expect.iter_mut().zip(dep) {
                        if let Some(d) = d {
                            *e = Some(match e.take() {
                                None => d,
                                Some(acc) => acc.iter().zip(&d).map(|(x, y)| *x + *y).collect(),
                            });
                        }
                    }
                }
            }
        }
        let mut dg = 0xcbf29ce484222325u64;
        for (k, (t, e)) in total.iter().zip(&expect).enumerate() {
            let same = match (t, e) {
                (None, None) => true,
                (Some(a), Some(b)) => a.len() == b.len() && a.iter().zip(b).all(|(p, q)| p.to_bits() == q.to_bits() || (*p - *q).abs() <= 4.0 * Float::EPSILON * (p.abs() + q.abs())),
                _ => false,
            };
            if let Some(a) = t {
                fnv(&mut dg, &digest_vals(&[a.len()], a).to_le_bytes());
            }
            if !same {
                l.violation("model-accumulation", case(), format!("parameter {} holds {:?} after the calls; the calls' single deposits add up to {:?}", k, t, e));
                break;
            }
        }
        l.outcome(dg);
        l.sample(&case);
    })
}

pub fn explore(opts: &Opts) -> Explored {
    let (mut local, stats) = run_all(opts, machines(opts));
    local.merge(explore_model_accumulation(opts));
    Explored {
        local,
        bounds: json!({"machines": stats, "seeds": "0 = omitted, 1 = generic, 2 = zeros", "clear": ["replace_gradient", "gradient_mut"]}),
        rule: "explicit-state BFS over histories of build / backward(any live handle, seed) / clear / drop on a pool of leaves (a, b tracked, c untracked); every transition replays the history on the real library; after every step each live handle's gradient equals the sum over the passes since its last clear of the reference single-pass adjoints, and the increment of each pass equals what the same pass deposits on a freshly built copy of the graph".into(),
        exhaustive: true,
        assumptions: vec![
            "states are merged when the reference state and the probed hidden bookkeeping are equal; one machine per tier runs unmerged (history is the state) as a cross-check".into(),
            "seeds are untracked graph-free arrays".into(),
        ],
    }
}
