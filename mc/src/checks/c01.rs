//! C01 - reverse-mode gradients are exact on arbitrary computation graphs (engine E2).

use crate::common::*;
use crate::gen::*;
use crate::ops::*;
use crate::prog::*;
use crate::progcheck::*;
use crate::Explored;
use serde_json::json;

pub struct Space {
    pub name: &'static str,
    pub leaves: Vec<Leaf>,
    pub ops: Vec<OpK>,
    pub max_nodes: usize,
    /// restrict tracking masks to these (None = all 2^leaves)
    pub masks: Option<Vec<u32>>,
    /// also explore (a) one operand use going through a temporary `.clone().untracked()`, and
    /// (b) every ordered pair of passes (two roots, no seed), for programs of up to this many nodes
    pub deviations_upto: usize,
}

pub fn core_ops() -> Vec<OpK> {
    vec![OpK::Add, OpK::Mul, OpK::Neg, OpK::Scale(3.0)]
}

/// an alphabet in which whole adjoints become exactly zero (dead branches)
pub fn zero_ops() -> Vec<OpK> {
    vec![OpK::Add, OpK::Mul, OpK::Scale(0.0), OpK::Relu]
}

pub fn image_ops() -> Vec<OpK> {
    vec![OpK::Conv { sr: 1, sc: 1 }, OpK::Add, OpK::Mul, OpK::Relu, OpK::Sum(2), OpK::Sigmoid]
}

pub fn full_ops() -> Vec<OpK> {
    vec![
        OpK::Add,
        OpK::Sub,
        OpK::Mul,
        OpK::Div,
        OpK::Neg,
        OpK::Scale(-2.0),
        OpK::Powf(2.0),
        OpK::Powf(3.0),
        OpK::Relu,
        OpK::Exp,
        OpK::Ln,
        OpK::Sum(1),
        OpK::Sum(2),
        OpK::Reshape(vec![3, 2]),
        OpK::Reshape(vec![6]),
        OpK::Matmul { ta: false, tb: false, bias: false },
        OpK::Matmul { ta: false, tb: true, bias: false },
        OpK::Matmul { ta: true, tb: false, bias: false },
        OpK::Matmul { ta: true, tb: true, bias: false },
        OpK::Matmul { ta: false, tb: false, bias: true },
        OpK::UMul,
        OpK::UAdd,
    ]
}

pub fn spaces(tier: Tier, var: u64) -> Vec<Space> {
    match tier {
        Tier::Quick => vec![
            Space { name: "same-shape/core", leaves: same_shape_pool(var), ops: core_ops(), max_nodes: 3, masks: None, deviations_upto: 2 },
            Space { name: "broadcast/full", leaves: broadcast_pool(var), ops: full_ops(), max_nodes: 2, masks: Some(vec![0b1111, 0b0001, 0b0110, 0b1010, 0b0101]), deviations_upto: 0 },
            Space { name: "same-shape/zero", leaves: same_shape_pool(var), ops: zero_ops(), max_nodes: 3, masks: Some(vec![0b111, 0b011, 0b101]), deviations_upto: 0 },
            Space { name: "image/conv", leaves: image_pool(var), ops: image_ops(), max_nodes: 2, masks: Some(vec![0b1111, 0b0110, 0b1001]), deviations_upto: 0 },
        ],
        Tier::Thorough => vec![
            Space { name: "same-shape/core", leaves: same_shape_pool(var), ops: core_ops(), max_nodes: 4, masks: Some(vec![0b111, 0b011, 0b101, 0b110, 0b001]), deviations_upto: 0 },
            Space { name: "same-shape/core3", leaves: same_shape_pool(var), ops: core_ops(), max_nodes: 3, masks: None, deviations_upto: 3 },
            Space { name: "broadcast/full", leaves: broadcast_pool(var), ops: full_ops(), max_nodes: 2, masks: None, deviations_upto: 0 },
            Space { name: "same-shape/zero", leaves: same_shape_pool(var), ops: zero_ops(), max_nodes: 3, masks: None, deviations_upto: 0 },
            Space { name: "image/conv", leaves: image_pool(var), ops: image_ops(), max_nodes: 3, masks: None, deviations_upto: 0 },
        ],
    }
}

/// Explore one program space: every program x masks x every op node as root x seeds.
pub fn explore_space(opts: &Opts, sp: &Space, total: &mut Local, stats_out: &mut Vec<serde_json::Value>) {
    let nl = sp.leaves.len();
    let masks: Vec<u32> = match &sp.masks {
        Some(m) => m.clone(),
        None => (0..(1u32 << nl)).collect(),
    };
    let threads = opts.threads.max(1);
    let gen_stats = std::sync::Mutex::new((0u64, 0u64, 0u64));
    // every thread enumerates the whole space and executes its share (program index mod threads)
    let local = par(opts, threads, |ti, l| {
        let mut sink = |idx: u64, p: &Program| {
            if idx as usize % threads != ti {
                return;
            }
            l.states += 1;
            for &m in &masks {
                let mask: Vec<bool> = (0..nl).map(|k| m & (1 << k) != 0).collect();
                // deviations: one frozen operand use; every ordered pair of passes
                if p.nodes.len() <= sp.deviations_upto {
                    let t = p.tracked(&mask);
                    let mut variants: Vec<Program> = Vec::new();
                    for (k, n) in p.nodes.iter().enumerate() {
                        for (pos, &a) in n.args.iter().enumerate() {
                            if t[a] {
                                let mut q = p.clone();
                                q.frozen.push((k, pos));
                                variants.push(q);
                            }
                        }
                    }
                    for q in &variants {
                        for root in q.nl()..q.nv() {
                            let passes = vec![Pass { root, seed: None }];
                            let case = || format!("{} mask={:0w$b} {}", q.describe(), m, describe_passes(&passes), w = nl).replace(' ', "");
                            if !l.want(&case) {
                                continue;
                            }
                            let cfg = CheckCfg { sub: "frozen-use", intermediates: true, values: true };
                            check_program(q, &mask, &passes, &cfg, l, &case);
                        }
                    }
                    for r1 in p.nl()..p.nv() {
                        for r2 in p.nl()..p.nv() {
                            let passes = vec![Pass { root: r1, seed: None }, Pass { root: r2, seed: None }];
                            let case = || format!("{} mask={:0w$b} {}", p.describe(), m, describe_passes(&passes), w = nl).replace(' ', "");
                            if !l.want(&case) {
                                continue;
                            }
                            let cfg = CheckCfg { sub: "pass-pair", intermediates: true, values: false };
                            check_program(p, &mask, &passes, &cfg, l, &case);
                        }
                    }
                }
                for root in p.nl()..p.nv() {
                    let out_n: usize = match crate::prog::eval_ref(p, &mask, None) {
                        Ok(b) => b[root].len(),
                        Err(_) => continue,
                    };
                    for seeded in 0..3u8 {
                        let seed = match seeded {
                            0 => None,
                            1 => Some(seed_vals(out_n, opts.seed)),
                            _ => Some(vec![0.0; out_n]),
                        };
                        let passes = vec![Pass { root, seed }];
                        let case = || format!("{} mask={:0w$b} {}", p.describe(), m, describe_passes(&passes), w = nl).replace(' ', "");
                        if !l.want(&case) {
                            continue;
                        }
                        let cfg = CheckCfg { sub: sp.name, intermediates: true, values: true };
                        check_program(p, &mask, &passes, &cfg, l, &case);
                        l.sample(&case);
                    }
                }
            }
        };
        let mut g = Gen::new(sp.leaves.clone(), sp.ops.clone(), sp.max_nodes, &mut sink);
        g.run();
        if ti == 0 {
            *gen_stats.lock().unwrap() = (g.stats.programs, g.stats.dropped_inadmissible, g.stats.dropped_domain);
        }
    });
    let gs = gen_stats.lock().unwrap();
    stats_out.push(json!({"space": sp.name, "max_nodes": sp.max_nodes, "programs": gs.0, "operand_tuples_dropped_as_inadmissible": gs.1,
                          "dropped_out_of_domain": gs.2, "masks": masks.len(), "ops": sp.ops.iter().map(|o| o.name()).collect::<Vec<_>>(),
                          "leaves": sp.leaves.iter().map(|l| l.dims.clone()).collect::<Vec<_>>()}));
    total.merge(local);
}

pub fn explore(opts: &Opts) -> Explored {
    let var = opts.seed % 3;
    let mut total = Local::new(opts.only.clone());
    let mut stats = Vec::new();
    for sp in spaces(opts.tier, var) {
        explore_space(opts, &sp, &mut total, &mut stats);
    }
    Explored {
        local: total,
        bounds: json!({"spaces": stats, "roots": "every operation node", "deviations": "for the core space up to the stated node count: one operand use through a temporary .clone().untracked(), and every ordered pair of passes", "seeds": ["ones (omitted)", "generic", "all zeros"]}),
        rule: "every expression DAG with at most n operation nodes over the alphabet (operands range over all existing values: sharing, diamonds, self-products, fan-out) x tracking masks of the leaves x every op node as root x {no seed, generic seed}; values, gradient presence, gradient dimensions and gradient values of every leaf and every op node against the forward-mode reference".into(),
        exhaustive: true,
        assumptions: vec![
            "leaf values are fixed generic valuations; data-dependent control flow is covered because the library only ever sees the DAG the taken path built".into(),
            "programs leaving an operation's domain (ln/div of non-positive or ill-conditioned values) are skipped and counted".into(),
        ],
    }
}
