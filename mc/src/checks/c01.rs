//! C01 - reverse-mode gradients are exact on arbitrary computation graphs (engine E2).

use crate::common::*;
use crate::gen::*;
use crate::ops::*;
use crate::prog::*;
use crate::progcheck::*;
use crate::Explored;
use corgi::array::{Array, BackwardOp, ForwardOp};
use corgi::numbers::Float;
use serde_json::json;
use std::rc::Rc;

pub struct Space {
    pub name: &'static str,
    pub leaves: Vec<Leaf>,
    pub ops: Vec<OpK>,
    pub max_nodes: usize,
    /// restrict tracking masks to these (None = all 2^leaves)
    pub masks: Option<Vec<u32>>,
    /// also explore (a) one operand use going through a temporary `.clone().untracked()`, and
    /// (b) every ordered pair of passes (two roots, no seed), for programs of up to this many nodes
    pub deviations_upto: usize,
}

pub fn core_ops() -> Vec<OpK> {
    vec![OpK::Add, OpK::Mul, OpK::Neg, OpK::Scale(3.0)]
}

/// an alphabet in which whole adjoints become exactly zero (dead branches)
pub fn zero_ops() -> Vec<OpK> {
    vec![OpK::Add, OpK::Mul, OpK::Scale(0.0), OpK::Relu]
}

pub fn view_ops() -> Vec<OpK> {
    vec![OpK::Reshape(vec![1, 3]), OpK::Reshape(vec![3]), OpK::Reshape(vec![3, 1]), OpK::Mul, OpK::Add, OpK::Div]
}

pub fn image_ops() -> Vec<OpK> {
    vec![OpK::Conv { sr: 1, sc: 1 }, OpK::Conv { sr: 1, sc: 3 }, OpK::Add, OpK::Mul, OpK::Relu, OpK::Sum(2), OpK::Sigmoid]
}

pub fn full_ops() -> Vec<OpK> {
    vec![
        OpK::Add,
        OpK::Sub,
        OpK::Mul,
        OpK::Div,
        OpK::Neg,
        OpK::Scale(-2.0),
        OpK::Powf(2.0),
        OpK::Powf(3.0),
        OpK::Relu,
        OpK::Exp,
        OpK::Ln,
        OpK::Sum(1),
        OpK::Sum(2),
        OpK::Reshape(vec![3, 2]),
        OpK::Reshape(vec![6]),
        OpK::Matmul { ta: false, tb: false, bias: false },
        OpK::Matmul { ta: false, tb: true, bias: false },
        OpK::Matmul { ta: true, tb: false, bias: false },
        OpK::Matmul { ta: true, tb: true, bias: false },
        OpK::Matmul { ta: false, tb: false, bias: true },
        OpK::Matmul { ta: true, tb: false, bias: true },
        OpK::UMul,
        OpK::UAdd,
        OpK::UIdent,
        OpK::Recip,
        OpK::Sigmoid,
        OpK::Softmax,
        OpK::Axpy(-2.0),
    ]
}

pub fn spaces(tier: Tier, var: u64) -> Vec<Space> {
    match tier {
        Tier::Quick => vec![
            Space { name: "same-shape/core", leaves: same_shape_pool(var), ops: core_ops(), max_nodes: 3, masks: None, deviations_upto: 2 },
            Space { name: "broadcast/full", leaves: broadcast_pool(var), ops: full_ops(), max_nodes: 2, masks: Some(vec![0b1111, 0b0001, 0b0110, 0b1010, 0b0101]), deviations_upto: 0 },
            Space { name: "same-shape/zero", leaves: same_shape_pool(var), ops: zero_ops(), max_nodes: 3, masks: Some(vec![0b111, 0b011, 0b101]), deviations_upto: 0 },
            Space { name: "image/conv", leaves: image_pool(var), ops: image_ops(), max_nodes: 2, masks: Some(vec![0b1111, 0b0110, 0b1001]), deviations_upto: 0 },
            Space { name: "views/alias", leaves: view_pool(var), ops: view_ops(), max_nodes: 3, masks: None, deviations_upto: 0 },
        ],
        Tier::Thorough => vec![
            Space { name: "same-shape/core", leaves: same_shape_pool(var), ops: core_ops(), max_nodes: 4, masks: Some(vec![0b111, 0b011, 0b101, 0b110, 0b001]), deviations_upto: 0 },
            Space { name: "same-shape/core3", leaves: same_shape_pool(var), ops: core_ops(), max_nodes: 3, masks: None, deviations_upto: 3 },
            Space { name: "broadcast/full", leaves: broadcast_pool(var), ops: full_ops(), max_nodes: 2, masks: None, deviations_upto: 0 },
            Space { name: "same-shape/zero", leaves: same_shape_pool(var), ops: zero_ops(), max_nodes: 3, masks: None, deviations_upto: 0 },
            Space { name: "image/conv", leaves: image_pool(var), ops: image_ops(), max_nodes: 3, masks: None, deviations_upto: 0 },
            Space { name: "views/alias", leaves: view_pool(var), ops: view_ops(), max_nodes: 4, masks: None, deviations_upto: 0 },
        ],
    }
}

/// Explore one program space: every program x masks x every op node as root x seeds.
pub fn explore_space(opts: &Opts, sp: &Space, total: &mut Local, stats_out: &mut Vec<serde_json::Value>) {
    let nl = sp.leaves.len();
    let masks: Vec<u32> = match &sp.masks {
        Some(m) => m.clone(),
        None => (0..(1u32 << nl)).collect(),
    };
    let threads = opts.threads.max(1);
    let gen_stats = std::sync::Mutex::new((0u64, 0u64, 0u64));
    // every thread enumerates the whole space and executes its share (program index mod threads)
    let local = par(opts, threads, |ti, l| {
        let mut sink = |idx: u64, p: &Program| {
            if idx as usize % threads != ti {
                return;
            }
            l.states += 1;
            for &m in &masks {
                let mask: Vec<bool> = (0..nl).map(|k| m & (1 << k) != 0).collect();
                // deviations: one frozen operand use; every ordered pair of passes
                if p.nodes.len() <= sp.deviations_upto {
                    let t = p.tracked(&mask);
                    let mut variants: Vec<Program> = Vec::new();
                    for (k, n) in p.nodes.iter().enumerate() {
                        for (pos, &a) in n.args.iter().enumerate() {
                            if t[a] {
                                let mut q = p.clone();
                                q.frozen.push((k, pos));
                                variants.push(q);
                            }
                        }
                    }
                    for q in &variants {
                        for root in q.nl()..q.nv() {
                            let passes = vec![Pass { root, seed: None }];
                            let case = || format!("{} mask={:0w$b} {}", q.describe(), m, describe_passes(&passes), w = nl).replace(' ', "");
                            if !l.want(&case) {
                                continue;
                            }
                            let cfg = CheckCfg { sub: "frozen-use", intermediates: true, values: true };
                            check_program(q, &mask, &passes, &cfg, l, &case);
                        }
                    }
                    for r1 in p.nl()..p.nv() {
                        for r2 in p.nl()..p.nv() {
                            let passes = vec![Pass { root: r1, seed: None }, Pass { root: r2, seed: None }];
                            let case = || format!("{} mask={:0w$b} {}", p.describe(), m, describe_passes(&passes), w = nl).replace(' ', "");
                            if !l.want(&case) {
                                continue;
                            }
                            let cfg = CheckCfg { sub: "pass-pair", intermediates: true, values: false };
                            check_program(p, &mask, &passes, &cfg, l, &case);
                        }
                    }
                }
                for root in p.nl()..p.nv() {
                    let out_n: usize = match crate::prog::eval_ref(p, &mask, None) {
                        Ok(b) => b[root].len(),
                        Err(_) => continue,
                    };
                    for seeded in 0..3u8 {
                        let seed = match seeded {
                            0 => None,
                            1 => Some(seed_vals(out_n, opts.seed)),
                            _ => Some(vec![0.0; out_n]),
                        };
                        let passes = vec![Pass { root, seed }];
                        let case = || format!("{} mask={:0w$b} {}", p.describe(), m, describe_passes(&passes), w = nl).replace(' ', "");
                        if !l.want(&case) {
                            continue;
                        }
                        let cfg = CheckCfg { sub: sp.name, intermediates: true, values: true };
                        check_program(p, &mask, &passes, &cfg, l, &case);
                        l.sample(&case);
                    }
                }
            }
        };
        let mut g = Gen::new(sp.leaves.clone(), sp.ops.clone(), sp.max_nodes, &mut sink);
        g.run();
        if ti == 0 {
            *gen_stats.lock().unwrap() = (g.stats.programs, g.stats.dropped_inadmissible, g.stats.dropped_domain);
        }
    });
    let gs = gen_stats.lock().unwrap();
    stats_out.push(json!({"space": sp.name, "max_nodes": sp.max_nodes, "programs": gs.0, "operand_tuples_dropped_as_inadmissible": gs.1,
                          "dropped_out_of_domain": gs.2, "masks": masks.len(), "ops": sp.ops.iter().map(|o| o.name()).collect::<Vec<_>>(),
                          "leaves": sp.leaves.iter().map(|l| l.dims.clone()).collect::<Vec<_>>()}));
    total.merge(local);
}

/// Larger graphs than the exhaustive spaces reach, of a few fixed structures: a leaf with fan-out k,
/// a chain of depth d that re-uses both leaves at every level, and a diamond of width w.
fn structured_programs(var: u64) -> Vec<(String, Program)> {
    let leaves = vec![
        Leaf { dims: vec![2], vals: vec![1.0 + var as f64, -2.0] },
        Leaf { dims: vec![2], vals: vec![3.0, 0.5] },
    ];
    let mut out = Vec::new();
    for k in [5usize, 9, 17, 33, 65] {
        // r = sum_i (a * b) with a used 2k times
        let mut nodes = Vec::new();
        let mut acc: Option<usize> = None;
        for i in 0..k {
            nodes.push(PNode { op: if i % 2 == 0 { OpK::Mul } else { OpK::Add }, args: vec![0, if i % 3 == 0 { 0 } else { 1 }] });
            let t = 2 + nodes.len() - 1;
            acc = Some(match acc {
                None => t,
                Some(p) => {
                    nodes.push(PNode { op: OpK::Add, args: vec![p, t] });
                    2 + nodes.len() - 1
                }
            });
        }
        out.push((format!("fan-out {}", 2 * k), Program { leaves: leaves.clone(), nodes, retrack: vec![], frozen: vec![], dropped: vec![] }));
    }
    for d in [10usize, 20, 40, 80] {
        // c = c * b + a, d times (values stay small: b = 0.5-ish second element; first grows)
        let mut nodes = Vec::new();
        let mut cur = 0usize;
        for i in 0..d {
            nodes.push(PNode { op: if i % 4 == 3 { OpK::Neg } else { OpK::Scale(-2.0) }, args: vec![cur] });
            let s = 2 + nodes.len() - 1;
            nodes.push(PNode { op: OpK::Add, args: vec![s, if i % 2 == 0 { 1 } else { 0 }] });
            cur = 2 + nodes.len() - 1;
        }
        out.push((format!("chain depth {}", d), Program { leaves: leaves.clone(), nodes, retrack: vec![], frozen: vec![], dropped: vec![] }));
    }
    for w in [4usize, 8, 16, 32] {
        // m = a*b; w parallel branches neg/scale of m; summed
        let mut nodes = vec![PNode { op: OpK::Mul, args: vec![0, 1] }];
        let mut acc: Option<usize> = None;
        for i in 0..w {
            nodes.push(PNode { op: if i % 2 == 0 { OpK::Neg } else { OpK::Scale(3.0) }, args: vec![2] });
            let t = 2 + nodes.len() - 1;
            acc = Some(match acc {
                None => t,
                Some(p) => {
                    nodes.push(PNode { op: OpK::Add, args: vec![p, t] });
                    2 + nodes.len() - 1
                }
            });
        }
        out.push((format!("diamond width {}", w), Program { leaves: leaves.clone(), nodes, retrack: vec![], frozen: vec![], dropped: vec![] }));
    }
    out
}

/// identity on `x` as a user operation whose derivative closure runs `(k * w).backward(None)`
fn nest(x: &Array, w: &Array, k: Float) -> Array {
    let fwd: ForwardOp = Rc::new(|x: &[&Array]| Array::from((x[0].dimensions().to_vec(), x[0].values().to_vec())));
    let w = w.clone();
    let bwd: BackwardOp = Rc::new(move |_, t, x| {
        let inner = &w * k;
        inner.backward(None);
        vec![if t[0] { Some(Array::from((x.dimensions().to_vec(), x.values().to_vec()))) } else { None }]
    });
    Array::op(&[x], fwd, Some(bwd))
}

fn nested_pass_cases(l: &mut Local) {
    let av: Vec<Float> = vec![1.5, -2.0, 0.25];
    let bv: Vec<Float> = vec![2.0, 0.5, -1.0];
    let seeds: Vec<(&str, Option<Vec<Float>>)> = vec![("ones", None), ("generic", Some(vec![1.0, 2.0, -3.0])), ("zeros", Some(vec![0.0, 0.0, 0.0]))];
    // name, builder (a, b) -> root, expected gradient of a and of b as functions of (A, B, s) per element
    type Build = fn(&Array, &Array) -> Array;
    type Expect = fn(Float, Float, Float) -> (Float, Float);
    let progs: Vec<(&str, Build, Expect)> = vec![
        ("r=nest(b|w)+w, w=a*a", |a, b| { let w = a * a; &nest(b, &w, 3.0) + &w }, |a, _b, s| (2.0 * a * (s + 3.0), s)),
        ("r=w+nest(b|w), w=a*a", |a, b| { let w = a * a; &w + &nest(b, &w, 3.0) }, |a, _b, s| (2.0 * a * (s + 3.0), s)),
        ("r=nest(b|w)*w, w=a*a", |a, b| { let w = a * a; &nest(b, &w, 3.0) * &w }, |a, b, s| (2.0 * a * b * s + 6.0 * a, a * a * s)),
        ("r=w*nest(b|w), w=a*a", |a, b| { let w = a * a; &w * &nest(b, &w, 3.0) }, |a, b, s| (2.0 * a * b * s + 6.0 * a, a * a * s)),
        ("r=nest(b|w), w=a*a", |a, b| { let w = a * a; nest(b, &w, 3.0) }, |a, _b, s| (6.0 * a, s)),
        ("r=(nest(b|w)+nest(b|w))+w, w=a*a", |a, b| { let w = a * a; &(&nest(b, &w, 3.0) + &nest(b, &w, 3.0)) + &w }, |a, _b, s| (2.0 * a * (s + 6.0), 2.0 * s)),
        ("r=nest(b|a)+a", |a, b| &nest(b, a, 3.0) + a, |_a, _b, s| (s + 3.0, s)),
        ("r=a+nest(b|a)", |a, b| a + &nest(b, a, 3.0), |_a, _b, s| (s + 3.0, s)),
        ("r=nest(b|w2)+w, w=a*a, w2=w*a", |a, b| { let w = a * a; let w2 = &w * a; &nest(b, &w2, 3.0) + &w }, |a, _b, s| (2.0 * a * s + 9.0 * a * a, s)),
        ("r=nest(x|w)+w, x=b*b, w=a*a", |a, b| { let w = a * a; let x = b * b; &nest(&x, &w, 3.0) + &w }, |a, b, s| (2.0 * a * (s + 3.0), 2.0 * b * s)),
        ("r=(nest(b|w)+w)+w, w=a*a", |a, b| { let w = a * a; &(&nest(b, &w, 3.0) + &w) + &w }, |a, _b, s| (2.0 * a * (2.0 * s + 3.0), s)),
        ("r=(w*b)+nest(b|w), w=a*a", |a, b| { let w = a * a; &(&w * b) + &nest(b, &w, 3.0) }, |a, b, s| (2.0 * a * (b * s + 3.0), a * a * s + s)),
    ];
    for (name, build, expect) in &progs {
        for (sname, seed) in &seeds {
            for passes in 1..=2usize {
                let case = || format!("nested pass: {} seed={} passes={}", name, sname, passes);
                if !l.want(&case) {
                    continue;
                }
                l.states += 1;
                l.transitions += 1;
                l.validated += 1;
                let (av2, bv2, seed2) = (av.clone(), bv.clone(), seed.clone());
                let build = *build;
                let got = run_catch(move || {
                    let a = Array::from((vec![3], av2)).tracked();
                    let b = Array::from((vec![3], bv2)).tracked();
                    let r = build(&a, &b);
                    for _ in 0..passes {
                        r.backward(seed2.clone().map(|s| Array::from((vec![3], s))));
                    }
                    let ga = a.gradient().as_ref().map(|g| g.values().to_vec());
                    let gb = b.gradient().as_ref().map(|g| g.values().to_vec());
                    (ga, gb)
                });
                let s: Vec<Float> = seed.clone().unwrap_or(vec![1.0; 3]);
                let want_a: Vec<Float> = (0..3).map(|i| passes as Float * expect(av[i], bv[i], s[i]).0).collect();
                let want_b: Vec<Float> = (0..3).map(|i| passes as Float * expect(av[i], bv[i], s[i]).1).collect();
                match got {
                    // an implementation may refuse to start a pass inside a pass (the statement promises
                    // nothing about re-entrancy); what it must not do is finish with wrong gradients
                    Err(_) => l.count("nested_pass_refused"),
                    Ok((ga, gb)) => {
                        l.outcome(digest_str(&format!("{:?}{:?}", ga, gb)));
                        if ga.as_deref() != Some(&want_a[..]) {
                            l.violation("nested-pass", case(), format!("gradient of a is {:?}, the two passes together give {:?}", ga, want_a));
                        } else if gb.as_deref() != Some(&want_b[..]) {
                            l.violation("nested-pass", case(), format!("gradient of b is {:?}, the two passes together give {:?}", gb, want_b));
                        }
                    }
                }
                l.sample(&case);
            }
        }
    }
}

pub fn explore(opts: &Opts) -> Explored {
    let var = opts.seed % 3;
    let mut total = Local::new(opts.only.clone());
    let mut stats = Vec::new();
    for sp in spaces(opts.tier, var) {
        explore_space(opts, &sp, &mut total, &mut stats);
    }
    // a few much larger graphs of fixed structure (thresholds on fan-out, depth or width)
    {
        let l = &mut total;
        let progs = structured_programs(var);
        for (name, p) in &progs {
            for m in [0b11u32, 0b01, 0b10] {
                let mask = vec![m & 1 != 0, m & 2 != 0];
                let root = p.nv() - 1;
                for npass in 1..=2usize {
                    let passes: Vec<Pass> = (0..npass).map(|_| Pass { root, seed: None }).collect();
                    let case = || format!("structured: {} mask={:02b} passes={}", name, m, npass);
                    if !l.want(&case) {
                        continue;
                    }
                    l.states += 1;
                    let cfg = CheckCfg { sub: "structured", intermediates: false, values: true };
                    check_program(p, &mask, &passes, &cfg, l, &case);
                    l.sample(&case);
                }
            }
        }
        stats.push(json!({"space": "structured larger graphs", "programs": progs.len(), "kinds": "fan-out 10..130, chain depth 10..80, diamond width 4..32"}));
    }
    // a pass started inside a user derivative closure while the outer pass is running, over a node that
    // the outer graph shares (and that does not depend on the operation's own operands): both passes
    // are ordinary passes, so every leaf ends with the sum of their contributions
    {
        let l = &mut total;
        let n0 = l.transitions;
        nested_pass_cases(l);
        stats.push(json!({"space": "pass nested in a user derivative closure", "executions": l.transitions - n0}));
    }
    Explored {
        local: total,
        bounds: json!({"spaces": stats, "roots": "every operation node", "deviations": "for the core space up to the stated node count: one operand use through a temporary .clone().untracked(), and every ordered pair of passes", "seeds": ["ones (omitted)", "generic", "all zeros"]}),
        rule: "every expression DAG with at most n operation nodes over the alphabet (operands range over all existing values: sharing, diamonds, self-products, fan-out) x tracking masks of the leaves x every op node as root x {no seed, generic seed}; values, gradient presence, gradient dimensions and gradient values of every leaf and every op node against the forward-mode reference".into(),
        exhaustive: true,
        assumptions: vec![
            "leaf values are fixed generic valuations; data-dependent control flow is covered because the library only ever sees the DAG the taken path built".into(),
            "programs leaving an operation's domain (ln/div of non-positive or ill-conditioned values) are skipped and counted".into(),
        ],
    }
}
