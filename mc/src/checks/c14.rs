//! C14 - each training iteration steps parameters along the true current-loss gradient
//! (E3-style exploration of training histories on the real Model).

use crate::common::*;
use crate::nn::*;
use crate::refmodel::*;
use crate::Explored;
use corgi::array::Array;
use corgi::model::Model;
use corgi::numbers::Float;
use corgi::optimizer::gd::GradientDescent;
use serde_json::json;
use std::collections::HashMap;

#[derive(Clone, Copy, Debug, PartialEq, Eq, Hash)]
enum Kind {
    /// forward, backward, update
    Regular,
    /// forward(other batch), forward, backward, update
    ExtraForward,
    /// forward, backward, backward, update (gradients of the same loss accumulate: a double step)
    DoubleBackward,
    /// forward, update (no gradient: parameters must not move)
    NoBackward,
}

#[derive(Clone, Copy, Debug, PartialEq, Eq, Hash)]
struct Iter {
    kind: Kind,
    batch: usize,
}

#[derive(Clone, Debug)]
struct ModelCfg {
    layers: Vec<LayerCfg>,
    cost: CostK,
    lr: f64,
    salt: u64,
    /// input forms (dimensions); a batch is (form, valuation sign)
    inputs: Vec<Vec<usize>>,
}

fn describe(m: &ModelCfg) -> String {
    format!(
        "[{}] cost={} lr={} init={}",
        m.layers.iter().map(|l| l.describe()).collect::<Vec<_>>().join(","),
        m.cost.name(),
        m.lr,
        ["mixed", "negative", "positive"][(m.salt / 1000).min(2) as usize]
    )
}

/// batches: every input form with a positive and a negative valuation
fn batches(m: &ModelCfg) -> Vec<(Vec<usize>, Vec<f64>)> {
    let mut out = Vec::new();
    for (fi, d) in m.inputs.iter().enumerate() {
        let n = numel(d);
        for sign in [1.0, -1.0] {
            if sign < 0.0 && fi > 1 {
                continue;
            }
            out.push((d.clone(), (0..n).map(|i| sign * (0.25 + 0.25 * ((i * 3 + fi) % 5) as f64)).collect()));
        }
    }
    out
}

/// the target of batch b: the output's dimensions, or - for every second batch of row vectors - one
/// row shared by all rows of the batch (a legal broadcast target: the costs take their counts from the
/// output)
fn target_dims(out_dims: &[usize], b: usize) -> Vec<usize> {
    if out_dims.len() == 2 && out_dims[0] > 1 && b % 2 == 1 {
        vec![out_dims[1]]
    } else {
        out_dims.to_vec()
    }
}

fn target_for(out_dims: &[usize], b: usize) -> Vec<f64> {
    let n = numel(out_dims);
    (0..n).map(|i| 0.125 + 0.125 * ((i + b) % 4) as f64).collect()
}

struct RunOut {
    losses: Vec<Float>,
    params: Vec<(Vec<usize>, Vec<Float>)>,
    /// what handles to earlier parameter generations (kept by the caller across the history) show wrongly
    stale: Vec<String>,
}

fn steps_of(it: &Iter, nb: usize) -> Vec<(char, usize)> {
    match it.kind {
        Kind::Regular => vec![('F', it.batch), ('B', it.batch), ('U', 0)],
        Kind::ExtraForward => vec![('F', (it.batch + 1) % nb), ('F', it.batch), ('B', it.batch), ('U', 0)],
        Kind::DoubleBackward => vec![('F', it.batch), ('B', it.batch), ('B', it.batch), ('U', 0)],
        Kind::NoBackward => vec![('F', it.batch), ('U', 0)],
    }
}

fn out_dims_ref(m: &ModelCfg, params: &[T], x: &T) -> Option<Vec<usize>> {
    ref_forward(&m.layers, params, x).ok().map(|t| t.dims)
}

/// run the whole history on one real Model; returns the losses of every backward and the final parameters
fn run_impl(m: &ModelCfg, hist: &[Iter], init_params: &[T]) -> Result<RunOut, String> {
    let bs = batches(m);
    run_catch(|| {
        let store = ActStore::new(&m.layers);
        let mut layers = build_layers(&m.layers, &store, m.salt);
        let gd = GradientDescent::new(m.lr as Float);
        let costf = m.cost.make();
        let mut losses = Vec::new();
        // the caller keeps handles to the initial parameters: later iterations work on the current
        // parameters only, so these must keep their values and end without a gradient
        let held: Vec<Array> = layers.iter_mut().flat_map(|l| l.parameters().into_iter().map(|p| p.clone()).collect::<Vec<_>>()).collect();
        let held_vals: Vec<Vec<Float>> = held.iter().map(|a| a.values().to_vec()).collect();
        let mut updates = 0usize;
        {
            let refs: Vec<&mut dyn corgi::layer::Layer> = layers.iter_mut().map(|b| &mut **b as &mut dyn corgi::layer::Layer).collect();
            let mut model = Model::new(refs, &gd, &costf);
            for it in hist {
                for (st, b) in steps_of(it, bs.len()) {
                    match st {
                        'F' => {
                            let _ = model.forward(arr(&bs[b].0, &bs[b].1));
                        }
                        'B' => {
                            let x = T::from_f64(bs[b].0.clone(), &bs[b].1);
                            let od = out_dims_ref(m, init_params, &x).expect("output dims");
                            let td = target_dims(&od, b);
                            losses.push(model.backward(arr(&td, &target_for(&td, b))));
                        }
                        _ => {
                            model.update();
                            updates += 1;
                        }
                    }
                }
            }
        }
        let mut stale = Vec::new();
        let current: Vec<Array> = layers.iter_mut().flat_map(|l| l.parameters().into_iter().map(|p| p.clone()).collect::<Vec<_>>()).collect();
        for (k, (h, v)) in held.iter().zip(&held_vals).enumerate() {
            if h.values() != &v[..] {
                stale.push(format!("the kept handle of initial parameter {} changed its values", k));
            }
            // once the parameter has been replaced by an update, later passes never reach the old array
            let replaced = h.values().as_ptr() != current[k].values().as_ptr();
            if replaced && updates >= 2 && h.gradient().is_some() {
                stale.push(format!("the kept handle of initial parameter {} (replaced by an update) holds a gradient after later iterations", k));
            }
        }
        let params = layers
            .iter_mut()
            .flat_map(|l| l.parameters().into_iter().map(|p| (p.dimensions().to_vec(), p.values().to_vec())).collect::<Vec<_>>())
            .collect();
        RunOut { losses, params, stale }
    })
}

/// reference: loss and gradient of the loss at `params` on batch b (forward mode through the formulas)
fn ref_loss_grad(m: &ModelCfg, params: &[T], b: usize) -> Result<(Du, Vec<Vec<Du>>), RErr> {
    let bs = batches(m);
    let x = T::from_f64(bs[b].0.clone(), &bs[b].1);
    let out = ref_forward(&m.layers, params, &x)?;
    let td = target_dims(&out.dims, b);
    let t = T::from_f64(td.clone(), &target_for(&td, b));
    let loss = sum_all_ref(&m.cost.apply_ref(&out, &t)?);
    let mut grads = Vec::new();
    for pi in 0..params.len() {
        let mut g = Vec::new();
        for e in 0..params[pi].len() {
            let mut ps: Vec<T> = params.iter().map(|p| p.strip()).collect();
            ps[pi] = ps[pi].with_basis(e);
            let o = ref_forward(&m.layers, &ps, &x)?;
            let l = sum_all_ref(&m.cost.apply_ref(&o, &t)?);
            g.push(l);
        }
        grads.push(g);
    }
    Ok((loss, grads))
}

fn model_space(tier: Tier) -> Vec<ModelCfg> {
    let mut out = Vec::new();
    let sizes: Vec<usize> = if tier == Tier::Quick { vec![1, 2] } else { vec![1, 2, 3] };
    let acts = Act::all();
    let depths: Vec<usize> = if tier == Tier::Quick { vec![1, 2] } else { vec![1, 2, 3] };
    for depth in depths {
        // all size tuples
        let mut tuples: Vec<Vec<usize>> = vec![vec![]];
        for _ in 0..=depth {
            tuples = tuples.iter().flat_map(|t| sizes.iter().map(move |s| { let mut u = t.clone(); u.push(*s); u })).collect();
        }
        // all activation tuples (3-layer models: a fixed set of patterns)
        let mut act_tuples: Vec<Vec<Act>> = vec![vec![]];
        for _ in 0..depth {
            act_tuples = act_tuples.iter().flat_map(|t| acts.iter().map(move |a| { let mut u = t.clone(); u.push(*a); u })).collect();
        }
        if depth == 3 {
            act_tuples = vec![vec![Act::Relu, Act::Sigmoid, Act::Softmax], vec![Act::Sigmoid, Act::Relu, Act::None], vec![Act::None, Act::None, Act::Sigmoid]];
            tuples.retain(|t| t.iter().filter(|s| **s == 3).count() <= 1);
        }
        for sz in &tuples {
            for at in &act_tuples {
                let layers: Vec<LayerCfg> = (0..depth).map(|i| LayerCfg::Dense { inp: sz[i], out: sz[i + 1], act: at[i] }).collect();
                for cost in [CostK::Mse, CostK::CrossEntropy] {
                    if cost == CostK::CrossEntropy && !matches!(at[depth - 1], Act::Sigmoid | Act::Softmax) {
                        continue;
                    }
                    for (li, lr) in [0.5, 0.1].iter().enumerate() {
                        let salts: Vec<u64> = if at.contains(&Act::Relu) { vec![5, 1005] } else { vec![5 + li as u64] };
                        for salt in salts {
                            out.push(ModelCfg {
                                layers: layers.clone(),
                                cost,
                                lr: *lr,
                                salt,
                                inputs: if depth == 1 { vec![vec![sz[0]], vec![2, sz[0]], vec![1, sz[0]], vec![3, sz[0]], vec![17, sz[0]], vec![40, sz[0]]] } else { vec![vec![sz[0]], vec![2, sz[0]], vec![1, sz[0]], vec![3, sz[0]]] },
                            });
                        }
                    }
                }
            }
        }
    }
    // two deep stacks (more layers and parameters than the exhaustive part reaches)
    for (sizes, acts_) in [
        (vec![2usize, 3, 2, 3, 2], vec![Act::Sigmoid, Act::Relu, Act::None, Act::Sigmoid]),
        (vec![3usize, 4, 4, 3, 2, 2], vec![Act::Relu, Act::Sigmoid, Act::Relu, Act::None, Act::Softmax]),
    ] {
        let layers: Vec<LayerCfg> = (0..acts_.len()).map(|i| LayerCfg::Dense { inp: sizes[i], out: sizes[i + 1], act: acts_[i] }).collect();
        for cost in [CostK::Mse, CostK::CrossEntropy] {
            if cost == CostK::CrossEntropy && !matches!(acts_[acts_.len() - 1], Act::Sigmoid | Act::Softmax) {
                continue;
            }
            out.push(ModelCfg { layers: layers.clone(), cost, lr: 0.25, salt: 11, inputs: vec![vec![sizes[0]], vec![2, sizes[0]], vec![5, sizes[0]], vec![17, sizes[0]]] });
        }
    }
    // convolutional stacks
    let conv1 = LayerCfg::Conv { count: 2, depth: 1, fr: 2, fc: 2, sr: 1, sc: 1, act: Act::Relu };
    let conv1s = LayerCfg::Conv { count: 1, depth: 2, fr: 2, fc: 2, sr: 2, sc: 1, act: Act::Sigmoid };
    let conv2 = LayerCfg::Conv { count: 1, depth: 2, fr: 2, fc: 2, sr: 1, sc: 1, act: Act::None };
    let conv_a = LayerCfg::Conv { count: 2, depth: 1, fr: 2, fc: 2, sr: 1, sc: 1, act: Act::Sigmoid };
    let conv_b = LayerCfg::Conv { count: 1, depth: 2, fr: 1, fc: 2, sr: 2, sc: 1, act: Act::None };
    let conv_c = LayerCfg::Conv { count: 2, depth: 2, fr: 2, fc: 1, sr: 1, sc: 2, act: Act::Relu };
    // a later layer whose filter covers its whole input map (one window), and a 1x1 layer after a
    // layer whose filter covers the whole image
    let conv_whole = LayerCfg::Conv { count: 2, depth: 2, fr: 2, fc: 3, sr: 1, sc: 1, act: Act::None };
    let conv_img = LayerCfg::Conv { count: 2, depth: 1, fr: 3, fc: 3, sr: 1, sc: 1, act: Act::Sigmoid };
    let conv_1x1 = LayerCfg::Conv { count: 1, depth: 2, fr: 1, fc: 1, sr: 1, sc: 1, act: Act::None };
    for (layers, inputs) in [
        (vec![conv_a.clone(), conv_b.clone()], vec![vec![1, 4, 4], vec![2, 1, 4, 4], vec![3, 1, 4, 4]]),
        (vec![conv_a.clone(), conv_c.clone()], vec![vec![1, 4, 5], vec![2, 1, 4, 5]]),
        (vec![conv_a.clone(), conv_whole.clone()], vec![vec![1, 3, 4], vec![2, 1, 3, 4]]),
        (vec![conv_img.clone(), conv_1x1.clone()], vec![vec![1, 3, 3], vec![2, 1, 3, 3]]),
    ] {
        for salt in [7u64, 2007] {
            out.push(ModelCfg { layers: layers.clone(), cost: CostK::Mse, lr: 0.25, salt, inputs: inputs.clone() });
        }
    }
    out.push(ModelCfg {
        layers: vec![LayerCfg::Conv { count: 17, depth: 1, fr: 2, fc: 2, sr: 1, sc: 1, act: Act::None }],
        cost: CostK::Mse,
        lr: 0.25,
        salt: 13,
        inputs: vec![vec![1, 63, 64]],
    });
    for (layers, inputs) in [
        (vec![conv1.clone()], vec![vec![1, 3, 3], vec![2, 1, 3, 3], vec![1, 1, 3, 3]]),
        (vec![conv1s.clone()], vec![vec![2, 4, 3], vec![2, 2, 4, 3]]),
        (vec![conv1.clone(), conv2.clone()], vec![vec![1, 4, 4], vec![2, 1, 4, 4]]),
    ] {
        for salt in [7u64, 1007] {
            out.push(ModelCfg { layers: layers.clone(), cost: CostK::Mse, lr: 0.25, salt, inputs: inputs.clone() });
        }
    }
    out
}

pub fn explore(opts: &Opts) -> Explored {
    let models = model_space(opts.tier);
    let max_len = if opts.tier == Tier::Quick { 2 } else { 4 };
    let local = par(opts, models.len(), |mi, l| {
        let m = &models[mi];
        let nb = batches(m).len();
        // initial parameters as observed from freshly built layers
        let init: Vec<T> = {
            let store = ActStore::new(&m.layers);
            let mut layers = build_layers(&m.layers, &store, m.salt);
            read_params(&mut layers)
        };
        // BFS over histories; a state is a history, its observed parameters are memoised
        let mut observed: HashMap<Vec<Iter>, Vec<T>> = HashMap::new();
        observed.insert(vec![], init.clone());
        let mut frontier: Vec<Vec<Iter>> = vec![vec![]];
        let huge = m.inputs.iter().any(|d| numel(d) > 2000);
        for depth in 1..=(if huge { 1 } else { max_len }) {
            let mut next = Vec::new();
            for h in &frontier {
                let irregular_used = h.iter().any(|i| i.kind != Kind::Regular);
                let smallest = m.layers.len() == 1;
                if depth > 2 && !smallest && opts.tier == Tier::Quick {
                    continue;
                }
                // four iterations only for single-layer models
                if depth > 3 && !smallest {
                    continue;
                }
                for b in 0..nb {
                    let kinds: Vec<Kind> = if irregular_used { vec![Kind::Regular] } else { vec![Kind::Regular, Kind::ExtraForward, Kind::DoubleBackward, Kind::NoBackward] };
                    for kind in kinds {
                        let it = Iter { kind, batch: b };
                        let mut hist = h.clone();
                        hist.push(it);
                        let case = || {
                            format!(
                                "{} history={}",
                                describe(m),
                                hist.iter().map(|i| format!("{:?}(b{})", i.kind, i.batch)).collect::<Vec<_>>().join(",")
                            )
                        };
                        if !l.want(&case) && l.only.as_ref().map(|o| !o.starts_with(&case())).unwrap_or(false) {
                            continue;
                        }
                        l.states += 1;
                        let theta = observed[h].clone();
                        // reference step from the observed parameters
                        let (loss, grads) = match ref_loss_grad(m, &theta, b) {
                            Ok(x) => x,
                            Err(_) => {
                                l.count("skipped_domain");
                                continue;
                            }
                        };
                        let factor = match kind {
                            Kind::Regular | Kind::ExtraForward => 1.0,
                            Kind::DoubleBackward => 2.0,
                            Kind::NoBackward => 0.0,
                        };
                        l.transitions += 1;
                        l.validated += 1;
                        let got = match run_impl(m, &hist, &init) {
                            Ok(g) => g,
                            Err(msg) => {
                                l.violation("training", case(), format!("panicked: {}", msg));
                                continue;
                            }
                        };
                        if !got.stale.is_empty() {
                            l.violation("stale-parameters", case(), got.stale.join("; "));
                            continue;
                        }
                        let mut h64 = 0xcbf29ce484222325u64;
                        for p in &got.params {
                            fnv(&mut h64, &digest_vals(&p.0, &p.1).to_le_bytes());
                        }
                        l.outcome(h64);
                        // the loss(es) returned by this iteration
                        let n_back = steps_of(&it, nb).iter().filter(|s| s.0 == 'B').count();
                        let mut bad = false;
                        for k in 0..n_back {
                            let lv = got.losses[got.losses.len() - 1 - k];
                            if let Err(e) = cmp_slice(&[lv], &[loss], Part::Value) {
                                l.violation("loss", case(), format!("returned loss is not the loss of the current parameters on the current batch: {}", e));
                                bad = true;
                                break;
                            }
                        }
                        if bad {
                            continue;
                        }
                        // every parameter after the update
                        let mut new_theta: Vec<T> = Vec::new();
                        for (pi, p) in got.params.iter().enumerate() {
                            let exp: Vec<Du> = theta[pi]
                                .x
                                .iter()
                                .zip(&grads[pi])
                                .map(|(x, g)| {
                                    let v = x.v - m.lr * factor * g.d;
                                    Du { v, d: 0.0, m: x.v.abs() + (m.lr * factor).abs() * g.md + v.abs(), md: 0.0, ex: false, amb: g.amb }
                                })
                                .collect();
                            if p.0 != theta[pi].dims {
                                l.violation("step", case(), format!("parameter {} changed dimensions {:?} -> {:?}", pi, theta[pi].dims, p.0));
                                bad = true;
                                break;
                            }
                            if exp.iter().any(|d| d.amb) {
                                l.count("parameters_skipped_relu_at_zero");
                            } else if let Err(e) = cmp_slice(&p.1, &exp, Part::Value) {
                                l.violation(
                                    "step",
                                    case(),
                                    format!(
                                        "parameter {} after the update is not theta - lr * {} * grad(loss): {}; before {:?} grad {:?}",
                                        pi,
                                        factor,
                                        e,
                                        theta[pi].values(),
                                        grads[pi].iter().map(|g| g.d).collect::<Vec<_>>()
                                    ),
                                );
                                bad = true;
                                break;
                            }
                            new_theta.push(T::new(p.0.clone(), p.1.iter().map(|v| Du::c(*v as f64)).collect()));
                        }
                        if bad {
                            continue;
                        }
                        l.sample(&case);
                        observed.insert(hist.clone(), new_theta);
                        next.push(hist);
                    }
                }
            }
            frontier = next;
        }
    });
    Explored {
        local,
        bounds: json!({"models": models.len(), "max_iterations": max_len, "batch_forms": "unbatched vector, [2,in], [1,in], [3,in] (positive and negative valuations)",
                       "irregular_iterations": "at most one of: extra forward, second backward before the update, update without backward",
                       "initialisations": ["mixed signs", "all negative (every ReLU unit dead on positive inputs)"]}),
        rule: "for every model (dense stacks over sizes x activations x costs x learning rates, conv stacks) breadth-first over histories of iterations (each on any batch of the pool, at most one irregular iteration): the whole history is run on one real Model; the loss returned by the last iteration and every parameter after its update must equal the reference loss and theta - lr * grad computed by forward mode through the documented formulas from the parameters observed after the prefix history".into(),
        exhaustive: true,
        assumptions: vec![
            "parameters are read through Layer::parameters() after the Model is dropped; the prefix history's observed parameters are the reference's starting point, so drift cannot build up".into(),
            "entries whose gradient depends on ReLU's derivative at exactly 0 are not compared".into(),
        ],
    }
}
