//! C13 - a gradient-descent update is exactly one step per parameter and clears gradients (E1).

use crate::common::*;
use crate::refmodel::*;
use crate::shapes::*;
use crate::Explored;
use corgi::array::Array;
use corgi::numbers::Float;
use corgi::optimizer::gd::GradientDescent;
use corgi::optimizer::Optimizer;
use serde_json::json;

fn fl(v: &[f64]) -> Vec<Float> {
    v.iter().map(|x| *x as Float).collect()
}

struct Snap {
    dims: Vec<usize>,
    vals: Vec<Float>,
    tracked: bool,
    grad: Option<Vec<Float>>,
}

fn snap(a: &Array) -> Snap {
    let t = a.stop_tracking();
    if t {
        a.start_tracking();
    }
    Snap {
        dims: a.dimensions().to_vec(),
        vals: a.values().to_vec(),
        tracked: t,
        grad: a.gradient().as_ref().map(|g| g.values().to_vec()),
    }
}

pub fn explore(opts: &Opts) -> Explored {
    let mut pool: Vec<Vec<usize>> = vec![vec![1], vec![2], vec![2, 2], vec![1, 3], vec![2, 1, 2]];
    let max_len = if opts.tier == Tier::Quick { 3 } else { 4 };
    // 0.1 and 1e-3 are not representable in any binary format: a rate that is narrowed, rounded or
    // re-derived on the way to the step shows as a relative error far above the 4 ulp allowed
    let lrs: Vec<f64> = vec![0.0, 0.5, 2.0, -1.0, 0.1, 1.0e-3];
    let var = opts.seed % 3;
    // all tuples
    let mut lists: Vec<Vec<usize>> = Vec::new();
    for len in 1..=max_len {
        let total = pool.len().pow(len as u32);
        for mut code in 0..total {
            let mut t = Vec::new();
            for _ in 0..len {
                t.push(code % pool.len());
                code /= pool.len();
            }
            lists.push(t);
        }
    }
    // large parameters (more values than any block size), alone and between small ones
    pool.push(vec![13, 10]);
    pool.push(vec![67]);
    lists.push(vec![5]);
    lists.push(vec![1, 5, 0]);
    lists.push(vec![6, 5]);
    lists.push(vec![5, 6, 2]);
    // a few long lists (a capacity or block size in the optimizer would only show here)
    for len in [9usize, 17, 33] {
        lists.push((0..len).map(|k| (k * 2 + 1) % 5).collect());
    }
    let local = par(opts, lists.len(), |i, l| {
        let list = &lists[i];
        let n = list.len();
        l.states += 1;
        for family in 0..3u8 {
            for &lr in &lrs {
                if family == 2 && (n > 3 || lr == 0.0 || lr == -1.0 || lr == 1.0e-3) {
                    continue;
                }
                // long lists: a fixed selection of subsets instead of all of them
                let subsets: Vec<u32> = if n <= 4 {
                    (0u32..(1 << n)).collect()
                } else {
                    let all = if n >= 32 { u32::MAX } else { (1u32 << n) - 1 };
                    vec![all, all & 0x5555_5555, all & 0xAAAA_AAAA, all & !1, all & !(1 << (n.min(31) - 1)), all & 0x0F0F_0F0F]
                };
                for &s1 in &subsets {
                    for &s2 in &subsets {
                        let case = || {
                            format!(
                                "params={} family={} lr={} grads1={:0w$b} grads2={:0w$b} untracked_frozen={}",
                                list.iter().map(|k| fmt_dims(&pool[*k])).collect::<Vec<_>>().join(","),
                                ["gradient_mut", "backward", "gradient_mut with the same elements under other dimensions"][family as usize],
                                lr,
                                s1,
                                s2,
                                (s1 ^ s2) & 1,
                                w = n
                            )
                        };
                        if !l.want(&case) {
                            continue;
                        }
                        l.transitions += 1;
                        l.validated += 1;
                        let res = run_catch(|| {
                            let mut msgs: Vec<String> = Vec::new();
                            let mut params: Vec<Array> = list
                                .iter()
                                .enumerate()
                                .map(|(k, p)| {
                                    let d = &pool[*p];
                                    let a = Array::from((d.clone(), fl(&vals_signed(numel(d), k, var))));
                                    // parameter 0 is left untracked in some cases: a frozen parameter's flag must survive
                                    if k == 0 && ((s1 ^ s2) & 1) == 1 && (s1 & 1) == 0 {
                                        a
                                    } else {
                                        a.tracked()
                                    }
                                })
                                .collect();
                            let gd = GradientDescent::new(lr as Float);
                            let mut digest = 0xcbf29ce484222325u64;
                            for (round, subset) in [s1, s2].iter().enumerate() {
                                // install gradients
                                for k in 0..n {
                                    if k >= 32 || subset & (1 << k) == 0 {
                                        continue;
                                    }
                                    let d = params[k].dimensions().to_vec();
                                    let g = fl(&vals(numel(&d), k + 3 + round, var));
                                    if family == 0 {
                                        *params[k].gradient_mut() = Some(Array::from((d.clone(), g)));
                                    } else if family == 2 {
                                        // the same number of elements under different dimensions: the parameter keeps its own
                                        let mut gd2: Vec<usize> = d.iter().rev().cloned().collect();
                                        if gd2 == d {
                                            gd2 = if d.len() == 1 { vec![1, d[0]] } else { vec![numel(&d)] };
                                        }
                                        *params[k].gradient_mut() = Some(Array::from((gd2, g)));
                                    } else {
                                        let was = params[k].start_tracking();
                                        let w = Array::from((d.clone(), g));
                                        let r = &params[k] * &w;
                                        r.backward(None);
                                        if !was {
                                            params[k].stop_tracking();
                                        }
                                    }
                                }
                                let before: Vec<Snap> = params.iter().map(snap).collect();
                                gd.update(params.iter_mut().collect());
                                let after: Vec<Snap> = params.iter().map(snap).collect();
                                for k in 0..n {
                                    let (b, a) = (&before[k], &after[k]);
                                    fnv(&mut digest, &digest_vals(&a.dims, &a.vals).to_le_bytes());
                                    match &b.grad {
                                        None => {
                                            if a.dims != b.dims || a.vals.iter().zip(&b.vals).any(|(x, y)| x.to_bits() != y.to_bits()) || a.tracked != b.tracked || a.grad.is_some() {
                                                msgs.push(format!("round {}: parameter {} without a gradient was changed (dims {:?}->{:?}, tracked {}->{}, values {}->{})", round, k, b.dims, a.dims, b.tracked, a.tracked, fmt_vals(&b.vals), fmt_vals(&a.vals)));
                                            }
                                        }
                                        Some(g) => {
                                            let want: Vec<Float> = b.vals.iter().zip(g).map(|(x, gg)| *x - (lr as Float) * *gg).collect();
                                            if a.dims != b.dims {
                                                msgs.push(format!("round {}: parameter {} dimensions {:?} -> {:?}", round, k, b.dims, a.dims));
                                            } else if a.vals.iter().zip(want.iter().zip(b.vals.iter().zip(g))).any(|(x, (y, (o, gg)))| {
                                                // one rounding of the product and one of the difference are allowed
                                                // (a fused multiply-add or a BLAS axpy is as correct as two roundings)
                                                let scale = (*o as f64).abs() + ((lr as Float) * *gg) as f64;
                                                ((*x as f64) - (*y as f64)).abs() > 4.0 * (Float::EPSILON as f64) * scale.abs().max((*y as f64).abs())
                                            }) {
                                                msgs.push(format!("round {}: parameter {} is {} but old - lr*g = {}", round, k, fmt_vals(&a.vals), fmt_vals(&want)));
                                            }
                                            if !a.tracked {
                                                msgs.push(format!("round {}: updated parameter {} is not tracked", round, k));
                                            }
                                            if a.grad.is_some() {
                                                msgs.push(format!("round {}: updated parameter {} still holds a gradient", round, k));
                                            }
                                        }
                                    }
                                }
                            }
                            (msgs, digest)
                        });
                        match res {
                            Err(msg) => l.violation("update", case(), format!("panicked: {}", msg)),
                            Ok((msgs, dg)) => {
                                l.outcome(dg);
                                if !msgs.is_empty() {
                                    l.violation("update", case(), msgs.join("; "));
                                }
                            }
                        }
                        l.sample(&case);
                    }
                }
            }
        }
    });
    // steps far below the normal range, on zero and tiny parameters (a magnitude guard in the step would show)
    let mut local = local;
    if !IS_F32 {
        let l = &mut local;
        for (pi, (pv, gv)) in [
            (vec![0.0, 1.0e-300, -2.0], vec![4.0e-308, -2.0e-308, 1.0e-320]),
            (vec![0.0, 0.0, 0.0, 5.0e-324], vec![2.0e-308, -1.0e-310, 3.0, -1.0e-323]),
        ]
        .iter()
        .enumerate()
        {
            for &lr in &[0.5, 2.0, -1.0] {
                let case = || format!("tiny steps list={} lr={}", pi, lr);
                if !l.want(&case) {
                    continue;
                }
                l.states += 1;
                l.transitions += 1;
                l.validated += 1;
                let r = run_catch(|| {
                    let mut p = Array::from((vec![pv.len()], fl(pv))).tracked();
                    *p.gradient_mut() = Some(Array::from((vec![gv.len()], fl(gv))));
                    let gd = GradientDescent::new(lr as Float);
                    gd.update(vec![&mut p]);
                    p.values().to_vec()
                });
                match r {
                    Err(m) => l.violation("update", case(), format!("panicked: {}", m)),
                    Ok(v) => {
                        let want: Vec<Float> = pv.iter().zip(gv.iter()).map(|(x, g)| (*x as Float) - (lr as Float) * (*g as Float)).collect();
                        l.outcome(digest_vals(&[v.len()], &v));
                        if v.iter().zip(&want).any(|(a, b)| a.to_bits() != b.to_bits() && (*a as f64 - *b as f64).abs() > 4.0 * f64::EPSILON * (*b as f64).abs()) {
                            l.violation("update", case(), format!("got {} but old - lr*g = {}", fmt_vals(&v), fmt_vals(&want)));
                        }
                    }
                }
            }
        }
    }
    // learning rates and gradients at opposite ends of the exponent range: the product is an ordinary number
    if !IS_F32 {
        let l = &mut local;
        for (pi, (pv, gv, lr)) in [
            (vec![1.0, -2.0, 0.0], vec![1.0e50, -3.0e50, 2.5e49], 1.0e-50),
            (vec![1.0, -2.0, 0.0], vec![1.0e-40, -3.0e-40, 2.5e-41], 1.0e40),
            (vec![5.0, 7.0], vec![3.0e-300, 1.0e-299], 1.0e300),
            (vec![5.0, 7.0], vec![3.0e300, 1.0e299], -1.0e-300),
        ]
        .iter()
        .enumerate()
        {
            let case = || format!("extreme rate list={} lr={:e}", pi, lr);
            if !l.want(&case) {
                continue;
            }
            l.states += 1;
            l.transitions += 1;
            l.validated += 1;
            let r = run_catch(|| {
                let mut p = Array::from((vec![pv.len()], fl(pv))).tracked();
                *p.gradient_mut() = Some(Array::from((vec![gv.len()], fl(gv))));
                let gd = GradientDescent::new(*lr as Float);
                gd.update(vec![&mut p]);
                p.values().to_vec()
            });
            match r {
                Err(m) => l.violation("update", case(), format!("panicked: {}", m)),
                Ok(v) => {
                    let want: Vec<Float> = pv.iter().zip(gv.iter()).map(|(x, g)| (*x as Float) - (*lr as Float) * (*g as Float)).collect();
                    l.outcome(digest_vals(&[v.len()], &v));
                    if v.iter().zip(&want).any(|(a, b)| a.to_bits() != b.to_bits() && !((*a as f64 - *b as f64).abs() <= 8.0 * f64::EPSILON * (*b as f64).abs().max(1.0))) {
                        l.violation("update", case(), format!("got {} but old - lr*g = {}", fmt_vals(&v), fmt_vals(&want)));
                    }
                }
            }
        }
    }
    // one array listed twice (through a clone of its handle: tied parameters), at every pair of positions
    // of lists of 2-4 parameters: every *other* parameter must still be combined with its own gradient
    // only; for the tied pair the statement allows either handle to take the step
    {
        let l = &mut local;
        let dims_pool: Vec<Vec<usize>> = vec![vec![2], vec![3], vec![2, 2], vec![1, 3]];
        for len in 2..=4usize {
            for first in 0..len {
                for second in first + 1..len {
                    for gmask in 0u32..(1 << len) {
                        let case = || format!("tied parameters: list of {} with position {} a clone of position {}, gradients on {:0w$b}", len, second, first, gmask, w = len);
                        if !l.want(&case) {
                            continue;
                        }
                        l.states += 1;
                        l.transitions += 1;
                        l.validated += 1;
                        let dims_pool = dims_pool.clone();
                        let r = run_catch(move || {
                            let mut msgs: Vec<String> = Vec::new();
                            let mut params: Vec<Array> = Vec::new();
                            for k in 0..len {
                                if k == second {
                                    let c = params[first].clone();
                                    params.push(c);
                                } else {
                                    let d = &dims_pool[k % dims_pool.len()];
                                    params.push(Array::from((d.clone(), fl(&vals_signed(numel(d), k, var)))).tracked());
                                }
                            }
                            for k in 0..len {
                                if k != second && gmask & (1 << k) != 0 {
                                    let d = params[k].dimensions().to_vec();
                                    *params[k].gradient_mut() = Some(Array::from((d.clone(), fl(&vals(numel(&d), k + 5, var)))));
                                }
                            }
                            let before: Vec<Snap> = params.iter().map(snap).collect();
                            let gd = GradientDescent::new(0.5);
                            gd.update(params.iter_mut().collect());
                            let after: Vec<Snap> = params.iter().map(snap).collect();
                            for k in 0..len {
                                let (b, a) = (&before[k], &after[k]);
                                let stepped = |g: &Vec<Float>| -> bool { a.dims == b.dims && a.vals.len() == b.vals.len() && a.vals.iter().zip(b.vals.iter().zip(g)).all(|(x, (o, gg))| *x == *o - 0.5 * *gg) };
                                let untouched = a.dims == b.dims && a.vals.iter().zip(&b.vals).all(|(x, y)| x.to_bits() == y.to_bits());
                                if k == first || k == second {
                                    let ok = match &b.grad {
                                        None => untouched,
                                        Some(g) => stepped(g) || untouched,
                                    };
                                    if !ok {
                                        msgs.push(format!("tied parameter at position {} is neither untouched nor stepped by its own gradient: {} -> {}", k, fmt_vals(&b.vals), fmt_vals(&a.vals)));
                                    }
                                    if k == second {
                                        if let Some(g) = &b.grad {
                                            if !stepped(g) && !{ let f = &after[first]; f.vals.iter().zip(before[first].vals.iter().zip(g)).all(|(x, (o, gg))| *x == *o - 0.5 * *gg) } {
                                                msgs.push("neither handle of the tied parameter took the step of its gradient".to_string());
                                            }
                                        }
                                    }
                                } else {
                                    match &b.grad {
                                        None => {
                                            if !untouched || a.tracked != b.tracked {
                                                msgs.push(format!("parameter {} without a gradient was changed: {} -> {}", k, fmt_vals(&b.vals), fmt_vals(&a.vals)));
                                            }
                                        }
                                        Some(g) => {
                                            if !stepped(g) {
                                                msgs.push(format!("parameter {} is {} but old - lr*g = {:?} (old {}, gradient {})", k, fmt_vals(&a.vals), b.vals.iter().zip(g).map(|(o, gg)| *o - 0.5 * *gg).collect::<Vec<Float>>(), fmt_vals(&b.vals), fmt_vals(g)));
                                            }
                                            if a.grad.is_some() {
                                                msgs.push(format!("updated parameter {} still holds a gradient", k));
                                            }
                                        }
                                    }
                                }
                            }
                            msgs
                        });
                        match r {
                            Err(m) => l.violation("update-tied", case(), format!("panicked: {}", m)),
                            Ok(msgs) => {
                                l.outcome(digest_str(&format!("{}{}", case(), msgs.len())));
                                if !msgs.is_empty() {
                                    l.violation("update-tied", case(), msgs.join("; "));
                                }
                            }
                        }
                    }
                }
            }
        }
    }
    // the same through Model::update: every sequence of forward / backward / update calls of length <= 4
    // (thorough 5) that ends in an update, on models whose parameters may already hold gradients
    // before the model's first call; the last update must step exactly the parameters that hold a
    // gradient at that point, whatever the model did or did not do before
    {
        use crate::nn::{build_layers, Act, ActStore, CostK, LayerCfg};
        let max_len = if opts.tier == Tier::Quick { 4 } else { 5 };
        let mut seqs: Vec<Vec<u8>> = vec![vec![]];
        let mut all: Vec<Vec<u8>> = Vec::new();
        for _ in 0..max_len {
            let mut next = Vec::new();
            for sq in &seqs {
                for a in 0..3u8 {
                    // 0 forward, 1 backward (needs an earlier forward), 2 update
                    if a == 1 && !sq.contains(&0) {
                        continue;
                    }
                    let mut t = sq.clone();
                    t.push(a);
                    if a == 2 {
                        all.push(t.clone());
                    }
                    next.push(t);
                }
            }
            seqs = next;
        }
        let models: Vec<Vec<LayerCfg>> = vec![
            vec![LayerCfg::Dense { inp: 2, out: 2, act: Act::None }],
            vec![LayerCfg::Dense { inp: 2, out: 3, act: Act::Sigmoid }, LayerCfg::Dense { inp: 3, out: 1, act: Act::None }],
        ];
        let lr = 0.5f64;
        // run the calls on a fresh model; returns, per parameter, (dims, values, tracked, gradient values)
        let run = |cfgs: &Vec<LayerCfg>, pre: u8, calls: &[u8]| -> Result<Vec<Snap>, String> {
            run_catch(|| {
                let store = ActStore::new(cfgs);
                let mut layers = build_layers(cfgs, &store, 3 + var);
                // gradients present before the model exists: 1 = written by hand on every second parameter,
                // 2 = left by a pass over the layers' own forward
                if pre == 1 {
                    let mut k = 0;
                    for l in layers.iter_mut() {
                        for p in l.parameters() {
                            if k % 2 == 0 {
                                let d = p.dimensions().to_vec();
                                *p.gradient_mut() = Some(Array::from((d.clone(), fl(&vals(numel(&d), k + 1, var)))));
                            }
                            k += 1;
                        }
                    }
                } else if pre == 2 {
                    let mut x = Array::from((vec![2, 2], fl(&[1.0, -0.5, 0.25, 2.0])));
                    for l in layers.iter() {
                        x = l.forward(x);
                    }
                    x.backward(None);
                }
                let gd = GradientDescent::new(lr as Float);
                let cost = CostK::Mse.make();
                {
                    let refs: Vec<&mut dyn corgi::layer::Layer> = layers.iter_mut().map(|b| &mut **b as &mut dyn corgi::layer::Layer).collect();
                    let mut model = corgi::model::Model::new(refs, &gd, &cost);
                    let out_n = match cfgs.last().unwrap() {
                        LayerCfg::Dense { out, .. } => *out,
                        _ => 1,
                    };
                    for (i, c) in calls.iter().enumerate() {
                        match c {
                            0 => {
                                let _ = model.forward(Array::from((vec![2, 2], fl(&[0.5 + i as f64, -1.0, 2.0, 0.25]))));
                            }
                            1 => {
                                let _ = model.backward(Array::from((vec![2, out_n], fl(&vals_small(2 * out_n, i, var)))));
                            }
                            _ => model.update(),
                        }
                    }
                }
                let mut out = Vec::new();
                for l in layers.iter_mut() {
                    for p in l.parameters() {
                        out.push(snap(p));
                    }
                }
                out
            })
        };
        let l = &mut local;
        for (mi, cfgs) in models.iter().enumerate() {
            for pre in 0..3u8 {
                for sq in &all {
                    let case = || format!("Model::update after calls {} on model {} with {}", sq.iter().map(|c| ["F", "B", "U"][*c as usize]).collect::<String>(), mi, ["no earlier gradients", "gradients written by hand before the model existed", "gradients left by an earlier pass over the layers"][pre as usize]);
                    if !l.want(&case) {
                        continue;
                    }
                    l.states += 1;
                    l.transitions += 2;
                    l.validated += 1;
                    let before = run(cfgs, pre, &sq[..sq.len() - 1]);
                    let after = run(cfgs, pre, sq);
                    match (before, after) {
                        (Err(m), _) | (_, Err(m)) => l.violation("model-update", case(), format!("panicked: {}", m)),
                        (Ok(b), Ok(a)) => {
                            let mut msgs = Vec::new();
                            let mut dg = 0xcbf29ce484222325u64;
                            for (k, (b, a)) in b.iter().zip(&a).enumerate() {
                                fnv(&mut dg, &digest_vals(&a.dims, &a.vals).to_le_bytes());
                                match &b.grad {
                                    None => {
                                        if a.dims != b.dims || a.vals.iter().zip(&b.vals).any(|(x, y)| x.to_bits() != y.to_bits()) || a.tracked != b.tracked || a.grad.is_some() {
                                            msgs.push(format!("parameter {} held no gradient but was changed by the update", k));
                                        }
                                    }
                                    Some(g) => {
                                        if a.dims != b.dims {
                                            msgs.push(format!("parameter {} changed dimensions", k));
                                        } else if a.vals.iter().zip(b.vals.iter().zip(g)).any(|(x, (o, gg))| {
                                            let want = *o - (lr as Float) * *gg;
                                            ((*x as f64) - (want as f64)).abs() > 4.0 * (Float::EPSILON as f64) * ((*o as f64).abs() + (lr * *gg as f64).abs())
                                        }) {
                                            msgs.push(format!("parameter {} held the gradient {} and is {} after the update, old was {}", k, fmt_vals(g), fmt_vals(&a.vals), fmt_vals(&b.vals)));
                                        }
                                        if !a.tracked {
                                            msgs.push(format!("updated parameter {} is not tracked", k));
                                        }
                                        if a.grad.is_some() {
                                            msgs.push(format!("updated parameter {} still holds a gradient", k));
                                        }
                                    }
                                }
                            }
                            l.outcome(dg);
                            if !msgs.is_empty() {
                                l.violation("model-update", case(), msgs.join("; "));
                            }
                        }
                    }
                    l.sample(&case);
                }
            }
        }
    }
    // more parameters than a machine word has bits, with a single frozen one late in the list
    {
        let l = &mut local;
        for (count, frozen_at) in [(70usize, 66usize), (70, 3), (130, 129), (130, 64), (300, 257)] {
            let case = || format!("{} parameters, number {} frozen", count, frozen_at);
            if !l.want(&case) {
                continue;
            }
            l.states += 1;
            l.transitions += 1;
            l.validated += 1;
            let r = run_catch(|| {
                let dims_of = |k: usize| -> Vec<usize> { [vec![6], vec![2, 3], vec![3, 2], vec![1, 6]][k % 4].clone() };
                let mut params: Vec<Array> = (0..count).map(|k| Array::from((dims_of(k), (0..6).map(|i| (k * 6 + i) as Float).collect::<Vec<Float>>())).tracked()).collect();
                for (k, p) in params.iter().enumerate() {
                    if k != frozen_at {
                        *p.gradient_mut() = Some(Array::from((dims_of(k), (0..6).map(|i| ((k + i) % 5) as Float + 1.0).collect::<Vec<Float>>())));
                    }
                }
                let gd = GradientDescent::new(0.25);
                gd.update(params.iter_mut().collect());
                let mut msgs = Vec::new();
                for (k, p) in params.iter().enumerate() {
                    let want: Vec<Float> = (0..6).map(|i| (k * 6 + i) as Float - if k == frozen_at { 0.0 } else { 0.25 * (((k + i) % 5) as Float + 1.0) }).collect();
                    if p.dimensions() != &dims_of(k)[..] || p.values() != &want[..] {
                        msgs.push(format!("parameter {} is {:?} {}, expected {}", k, p.dimensions(), fmt_vals(p.values()), fmt_vals(&want)));
                        break;
                    }
                    if p.gradient().is_some() {
                        msgs.push(format!("parameter {} still holds a gradient", k));
                        break;
                    }
                }
                msgs
            });
            match r {
                Err(m) => l.violation("update", case(), format!("panicked: {}", m)),
                Ok(msgs) => {
                    l.outcome(digest_str(&case()));
                    if !msgs.is_empty() {
                        l.violation("update", case(), msgs.join("; "));
                    }
                }
            }
        }
    }
    Explored {
        local,
        bounds: json!({"shape_pool": pool, "list_lengths": format!("1..{}", max_len), "parameter_lists": lists.len(),
                       "learning_rates": lrs, "rounds": 2, "gradient_sources": ["gradient_mut", "real backward pass"]}),
        rule: "every tuple of parameter shapes x both gradient sources x learning rates x every subset holding a gradient in round 1 x every subset in round 2; each update compared with old - lr*g per element evaluated in the same float type (within 4 ulp: a fused multiply-add is as correct as two roundings), plus dimensions, tracking flag and empty gradient slot; frozen parameters bitwise untouched".into(),
        exhaustive: true,
        assumptions: vec![],
    }
}
