//! C15 - layers, activations, costs and the model compute their documented formulas (E1).

use crate::common::*;
use crate::nn::*;
use crate::refmodel::*;
use crate::shapes::*;
use crate::spaces::*;
use crate::Explored;
use corgi::array::Array;
use corgi::model::Model;
use corgi::optimizer::gd::GradientDescent;
use serde_json::json;

#[derive(Clone, Debug)]
enum Item {
    /// ext: unnormalised inputs (pre-activations of several hundred, both signs)
    Layer { cfg: LayerCfg, input: Vec<usize>, ext: bool },
    Stack { cfgs: Vec<LayerCfg>, input: Vec<usize>, cost: CostK, target: Vec<usize> },
    /// ext: outputs spread over the whole positive range, down to the smallest normal numbers
    Cost { cost: CostK, out: Vec<usize>, target: Vec<usize>, ext: bool },
}

fn input_vals(n: usize, var: u64) -> Vec<f64> {
    // signed dyadic values, so that relu sees both signs
    (0..n).map(|i| ((i * 5 + var as usize * 3) % 9) as f64 * 0.25 - 1.0 + if i % 2 == 0 { 0.125 } else { 0.0 }).collect()
}

/// pixel-like inputs (0..255) and their negatives, not normalised
fn ext_input_vals(n: usize, var: u64) -> Vec<f64> {
    (0..n).map(|i| { let v = ((i * 97 + var as usize * 31 + 200) % 256) as f64 * 8.0; if i % 3 == 1 { -v } else { v } }).collect()
}

/// outputs between the smallest normal numbers and 1
fn ext_prob_vals(n: usize, var: u64) -> Vec<f64> {
    let tiny = if IS_F32 { [1.0e-12, 0.5, 1.0e-20, 1.0e-36, 1.0e-7, 0.99, 3.0e-30, 1.0e-3] } else { [1.0e-12, 0.5, 1.0e-20, 1.0e-300, 1.0e-7, 0.99, 3.0e-100, 1.0e-3] };
    (0..n).map(|i| tiny[(i + var as usize) % tiny.len()]).collect()
}

fn prob_vals(n: usize, var: u64) -> Vec<f64> {
    (0..n).map(|i| 0.125 + 0.0625 * (((i * 3 + var as usize) % 11) as f64)).collect()
}

pub fn explore(opts: &Opts) -> Explored {
    let var = opts.seed % 3;
    let thorough = opts.tier == Tier::Thorough;
    let mut items: Vec<Item> = Vec::new();
    // dense layers
    let maxd = if thorough { 4 } else { 3 };
    for inp in 1..=maxd {
        for out in 1..=maxd {
            for act in Act::all() {
                for input in [vec![inp], vec![1, inp], vec![2, inp], vec![3, inp]] {
                    items.push(Item::Layer { cfg: LayerCfg::Dense { inp, out, act }, input, ext: false });
                }
                // batches of batches of row vectors: the leading dimensions are kept
                if act != Act::Softmax || inp <= 2 {
                    for input in [vec![2, 2, inp], vec![2, 3, inp], vec![1, 2, inp], vec![2, 1, 2, inp]] {
                        items.push(Item::Layer { cfg: LayerCfg::Dense { inp, out, act }, input, ext: false });
                    }
                }
            }
        }
    }
    // wide layers (more inputs / outputs than any block size)
    for (inp, out) in [(65usize, 3usize), (100, 2), (3, 70), (129, 1)] {
        for act in [Act::None, Act::Sigmoid] {
            for input in [vec![inp], vec![2, inp], vec![17, inp]] {
                items.push(Item::Layer { cfg: LayerCfg::Dense { inp, out, act }, input, ext: false });
            }
        }
    }
    // conv layers: geometry of C06 at small sizes, strides up to 3 (also larger than the filter)
    let batches = vec![vec![], vec![1], vec![2], vec![2, 3], vec![2, 2]];
    let convs = conv_configs(if thorough { 5 } else { 4 }, 2, 3, &[1, 2], &[1, 2], &batches);
    for c in &convs {
        for act in [Act::None, Act::Relu, Act::Sigmoid] {
            if act == Act::Sigmoid && (c.image.len() > 3 || c.sr == 3) {
                continue;
            }
            items.push(Item::Layer {
                cfg: LayerCfg::Conv { count: c.filters[0], depth: c.filters[1], fr: c.filters[2], fc: c.filters[3], sr: c.sr, sc: c.sc, act },
                input: c.image.clone(),
                ext: false,
            });
            if act == Act::Sigmoid && c.image.len() == 3 && c.sr == 1 && c.sc == 1 {
                items.push(Item::Layer {
                    cfg: LayerCfg::Conv { count: c.filters[0], depth: c.filters[1], fr: c.filters[2], fc: c.filters[3], sr: c.sr, sc: c.sc, act },
                    input: c.image.clone(),
                    ext: true,
                });
            }
        }
    }
    // unnormalised inputs: pre-activations of several hundred to a few thousand, both signs
    for inp in 1..=3usize {
        for out in 1..=3usize {
            for act in Act::all() {
                if act == Act::Softmax {
                    continue; // softmax of such rows is outside its stated domain (exponentials overflow)
                }
                for input in [vec![inp], vec![2, inp], vec![3, inp]] {
                    items.push(Item::Layer { cfg: LayerCfg::Dense { inp, out, act }, input, ext: true });
                }
            }
        }
    }
    // models: compositions of 1-3 dense layers, both costs, Model::backward's return value
    let sizes: Vec<usize> = vec![1, 2, 3];
    for depth in 1..=3usize {
        let mut stack_sizes: Vec<Vec<usize>> = vec![vec![]];
        for _ in 0..=depth {
            let mut next = Vec::new();
            for s in &stack_sizes {
                for &k in &sizes {
                    if depth == 3 && k == 3 && !thorough {
                        continue;
                    }
                    let mut t = s.clone();
                    t.push(k);
                    next.push(t);
                }
            }
            stack_sizes = next;
        }
        for ss in &stack_sizes {
            for (ai, acts) in [
                vec![Act::Relu, Act::Sigmoid, Act::Softmax],
                vec![Act::Sigmoid, Act::None, Act::Sigmoid],
                vec![Act::None, Act::Relu, Act::None],
            ]
            .iter()
            .enumerate()
            {
                let cfgs: Vec<LayerCfg> = (0..depth)
                    .map(|i| LayerCfg::Dense { inp: ss[i], out: ss[i + 1], act: if i == depth - 1 { acts[2] } else { acts[i % 2] } })
                    .collect();
                let last_act = acts[2];
                for batch in [None, Some(1usize), Some(2), Some(3)] {
                    let input = match batch {
                        None => vec![ss[0]],
                        Some(b) => vec![b, ss[0]],
                    };
                    let out_n = ss[depth];
                    let out_dims = match batch {
                        None => vec![1, out_n],
                        Some(b) => vec![b, out_n],
                    };
                    for cost in [CostK::Mse, CostK::CrossEntropy] {
                        if cost == CostK::CrossEntropy && last_act == Act::None {
                            continue; // ln of possibly negative outputs
                        }
                        let _ = ai;
                        // target of the output's shape, and a target of shape [n] shared by the batch
                        items.push(Item::Stack { cfgs: cfgs.clone(), input: input.clone(), cost, target: out_dims.clone() });
                        items.push(Item::Stack { cfgs: cfgs.clone(), input: input.clone(), cost, target: vec![out_n] });
                    }
                }
            }
        }
    }
    // cost closures alone on outputs of rank 1-3
    for out in union(shapes(3, 3), vec![vec![4], vec![2, 4]]) {
        for cost in [CostK::Mse, CostK::CrossEntropy] {
            items.push(Item::Cost { cost, out: out.clone(), target: out.clone(), ext: false });
            items.push(Item::Cost { cost, out: out.clone(), target: out.clone(), ext: true });
            if out.len() >= 2 {
                items.push(Item::Cost { cost, out: out.clone(), target: out[1..].to_vec(), ext: false });
                items.push(Item::Cost { cost, out: out.clone(), target: vec![*out.last().unwrap()], ext: false });
                items.push(Item::Cost { cost, out: out.clone(), target: vec![*out.last().unwrap()], ext: true });
            }
        }
    }
    let local = par(opts, items.len(), |i, l| {
        let it = &items[i];
        l.states += 1;
        match it {
            Item::Layer { cfg, input, ext } => {
                let case = || format!("layer {} input={} val={}{}", cfg.describe(), fmt_dims(input), var, if *ext { " unnormalised" } else { "" });
                if !l.want(&case) {
                    return;
                }
                let xv = if *ext { ext_input_vals(numel(input), var) } else { input_vals(numel(input), var) };
                let rx = T::from_f64(input.clone(), &xv);
                l.transitions += 1;
                l.validated += 1;
                let got = run_catch(|| {
                    let store = ActStore::new(std::slice::from_ref(cfg));
                    let mut layers = build_layers(std::slice::from_ref(cfg), &store, 1 + var);
                    let params = read_params(&mut layers);
                    let y = layers[0].forward(arr(input, &xv));
                    (params, y.dimensions().to_vec(), y.values().to_vec())
                });
                match got {
                    Err(msg) => l.violation("layer", case(), format!("panicked: {}", msg)),
                    Ok((params, d, v)) => {
                        let pd = cfg.param_dims();
                        if params[0].dims != pd[0] || params[1].dims != pd[1] {
                            l.violation("layer", case(), format!("parameter dimensions {:?} {:?}, expected {:?}", params[0].dims, params[1].dims, pd));
                            return;
                        }
                        let expect = match ref_layer(cfg, &params[0], &params[1], &rx) {
                            Ok(e) => e,
                            Err(_) => {
                                l.count("skipped");
                                return;
                            }
                        };
                        l.outcome(digest_vals(&d, &v));
                        // a single vector through a dense layer may come back as [out] or [1,out]
                        let dims_ok = d == expect.dims || (input.len() == 1 && expect.dims.len() == 2 && d == expect.dims[1..]);
                        if !dims_ok {
                            l.violation("layer", case(), format!("output dimensions {:?}, reference {:?}", d, expect.dims));
                        } else if let Err(e) = cmp_slice(&v, &expect.x, Part::Value) {
                            l.violation("layer", case(), format!("output: {}", e));
                        }
                    }
                }
                l.sample(&case);
            }
            Item::Stack { cfgs, input, cost, target } => {
                let case = || {
                    format!("model [{}] input={} cost={} target={} val={}", cfgs.iter().map(|c| c.describe()).collect::<Vec<_>>().join(","), fmt_dims(input), cost.name(), fmt_dims(target), var)
                };
                if !l.want(&case) {
                    return;
                }
                let xv = input_vals(numel(input), var);
                let tv = prob_vals(numel(target), var);
                let rx = T::from_f64(input.clone(), &xv);
                let rt = T::from_f64(target.clone(), &tv);
                l.transitions += 1;
                l.validated += 1;
                let got = run_catch(|| {
                    let store = ActStore::new(cfgs);
                    let mut layers = build_layers(cfgs, &store, 2 + var);
                    let params = read_params(&mut layers);
                    let gd = GradientDescent::new(0.0);
                    let costf = cost.make();
                    let (out, loss) = {
                        let refs: Vec<&mut dyn corgi::layer::Layer> = layers.iter_mut().map(|b| &mut **b as &mut dyn corgi::layer::Layer).collect();
                        let mut model = Model::new(refs, &gd, &costf);
                        let out = model.forward(arr(input, &xv));
                        let loss = model.backward(arr(target, &tv));
                        ((out.dimensions().to_vec(), out.values().to_vec()), loss)
                    };
                    // the cost closure on the same output, as an array
                    let oa = Array::from((out.0.clone(), out.1.clone()));
                    let ca = costf(&oa, &arr(target, &tv));
                    (params, out, loss, ca.dimensions().to_vec(), ca.values().to_vec())
                });
                match got {
                    Err(msg) => l.violation("model", case(), format!("panicked: {}", msg)),
                    Ok((params, out, loss, cd, cv)) => {
                        let expect = match ref_forward(cfgs, &params, &rx) {
                            Ok(e) => e,
                            Err(_) => {
                                l.count("skipped");
                                return;
                            }
                        };
                        l.outcome(digest_vals(&out.0, &out.1));
                        let dims_ok = out.0 == expect.dims || (input.len() == 1 && out.0 == expect.dims[1..]);
                        if !dims_ok {
                            l.violation("model", case(), format!("forward dimensions {:?}, reference {:?}", out.0, expect.dims));
                            return;
                        }
                        if let Err(e) = cmp_slice(&out.1, &expect.x, Part::Value) {
                            l.violation("model", case(), format!("forward is not the composition of the layers: {}", e));
                            return;
                        }
                        let mut eo = expect.clone();
                        eo.dims = out.0.clone();
                        let ec = match cost.apply_ref(&eo, &rt) {
                            Ok(c) => c,
                            Err(_) => {
                                l.count("skipped_cost_domain");
                                return;
                            }
                        };
                        if cd != ec.dims {
                            l.violation("cost", case(), format!("cost dimensions {:?}, reference {:?}", cd, ec.dims));
                        } else if let Err(e) = cmp_slice(&cv, &ec.x, Part::Value) {
                            l.violation("cost", case(), format!("cost array: {}", e));
                        } else if let Err(e) = cmp_slice(&[loss], &[sum_all_ref(&ec)], Part::Value) {
                            l.violation("model", case(), format!("Model::backward returned {} which is not the sum of the cost array: {}", loss, e));
                        }
                    }
                }
                l.sample(&case);
            }
            Item::Cost { cost, out, target, ext } => {
                let case = || format!("cost {} output={} target={} val={}{}", cost.name(), fmt_dims(out), fmt_dims(target), var, if *ext { " tiny outputs" } else { "" });
                if !l.want(&case) {
                    return;
                }
                let ov = if *ext { ext_prob_vals(numel(out), var) } else { prob_vals(numel(out), var + 1) };
                let tv = prob_vals(numel(target), var);
                let ro = T::from_f64(out.clone(), &ov);
                let rt = T::from_f64(target.clone(), &tv);
                let ec = match cost.apply_ref_guarded(&ro, &rt, !*ext) {
                    Ok(c) => c,
                    Err(_) => {
                        l.count("skipped");
                        return;
                    }
                };
                l.transitions += 1;
                l.validated += 1;
                let got = run_catch(|| {
                    let f = cost.make();
                    let c = f(&arr(out, &ov), &arr(target, &tv));
                    (c.dimensions().to_vec(), c.values().to_vec())
                });
                match got {
                    Err(msg) => l.violation("cost", case(), format!("panicked: {}", msg)),
                    Ok((d, v)) => {
                        l.outcome(digest_vals(&d, &v));
                        if d != ec.dims {
                            l.violation("cost", case(), format!("dimensions {:?}, reference {:?}", d, ec.dims));
                        } else if let Err(e) = cmp_slice(&v, &ec.x, Part::Value) {
                            l.violation("cost", case(), e);
                        }
                    }
                }
                l.sample(&case);
            }
        }
    });
    Explored {
        local,
        bounds: json!({"items": items.len(), "dense": format!("in,out in 1..{}, 4 activations, input [in] / [1,in] / [2,in] / [3,in]", maxd),
                       "conv_layers": convs.len(), "models": "1-3 dense layers with sizes in 1..3, 3 activation patterns, batch absent/1/2/3, both costs, target of the output's shape or one shared row",
                       "costs_alone": "outputs of rank 1-3, targets of the same shape or broadcast"}),
        rule: "every layer / model / cost configuration: outputs compared with the documented formulas evaluated in the reference on the parameters read through Layer::parameters(); Model::backward's return value compared with the sum of the cost array".into(),
        exhaustive: true,
        assumptions: vec!["for a single vector the dense output may be [out] or [1,out] (the statement fixes values, not that unit dimension)".into()],
    }
}
