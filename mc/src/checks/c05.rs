//! C05 - matmul computes the batched, optionally transposed product (engine E1).

use crate::common::*;
use crate::ops::*;
use crate::refmodel::*;
use crate::shapes::*;
use crate::spaces::*;
use crate::Explored;
use serde_json::json;

pub fn explore(opts: &Opts) -> Explored {
    let mut space = matmul_space(opts.tier);
    // longer inner dimensions and wider outputs than the exhaustive part, for every transpose combination
    for inner in [4usize, 5, 7, 8, 9, 12, 16, 17, 33, 65, 129, 200, 257] {
        for (rows, cols) in [(1usize, 1usize), (2, 3), (3, 1), (5, 4), (2, 65), (66, 2)] {
            for ta in [false, true] {
                for tb in [false, true] {
                    let am = if ta { vec![inner, rows] } else { vec![rows, inner] };
                    let bm = if tb { vec![cols, inner] } else { vec![inner, cols] };
                    space.push(MatCfg { a: am.clone(), ta, b: bm.clone(), tb, c: None });
                    space.push(MatCfg { a: [vec![2], am.clone()].concat(), ta, b: bm.clone(), tb, c: Some(vec![cols]) });
                }
            }
        }
    }
    // 7 and 8: positive valuations whose products resp. sums overflow (compared with `cmp_slice_inf`)
    let variants: Vec<u64> = if IS_F32 { vec![opts.seed % 3, (opts.seed + 1) % 3, 3, 4, 5, 7, 8] } else { vec![opts.seed % 3, (opts.seed + 1) % 3, 3, 4, 5, 6, 7, 8] };
    let local = par(opts, space.len(), |i, l| {
        let c = &space[i];
        l.states += 1;
        for &var in &variants {
            let case = || format!("{} val={}", c.describe(), var);
            if !l.want(&case) {
                continue;
            }
            let val = |n: usize, salt: usize| if var >= 7 { vals_overflow(n, salt, var - 7) } else { vals(n, salt, var) };
            let av = val(numel(&c.a), 0);
            let bv = val(numel(&c.b), 1);
            let cv = c.c.as_ref().map(|d| val(numel(d), 2));
            let ra = T::from_f64(c.a.clone(), &av);
            let rb = T::from_f64(c.b.clone(), &bv);
            let rc = c.c.as_ref().map(|d| T::from_f64(d.clone(), cv.as_ref().unwrap()));
            let op = OpK::Matmul { ta: c.ta, tb: c.tb, bias: c.c.is_some() };
            let mut rargs = vec![&ra, &rb];
            if let Some(rc) = &rc {
                rargs.push(rc);
            }
            let expect = if var >= 7 { apply_ref_raw(&op, &rargs) } else { apply_ref(&op, &rargs) };
            if let Err(RErr::Unspecified) | Err(RErr::Domain) = expect {
                l.count("skipped_unspecified");
                continue;
            }
            let a = arr(&c.a, &av);
            let b = arr(&c.b, &bv);
            let cc = c.c.as_ref().map(|d| arr(d, cv.as_ref().unwrap()));
            let got = run_catch(|| {
                let mut args = vec![&a, &b];
                if let Some(cc) = &cc {
                    args.push(cc);
                }
                let r = apply_impl(&op, &args, 0);
                (r.dimensions().to_vec(), r.values().to_vec())
            });
            l.transitions += 1;
            l.validated += 1;
            match (&expect, &got) {
                (Err(_), Err(_)) => {
                    l.count("refused_as_required");
                    l.outcome(1);
                }
                (Err(_), Ok((d, v))) => {
                    l.violation(
                        "refuse",
                        case(),
                        format!("incompatible operands must be refused, but {:?} {} was returned", d, fmt_vals(v)),
                    );
                }
                (Ok(r), Err(msg)) => {
                    l.violation("product", case(), format!("admissible operands (result {:?}) but the call panicked: {}", r.dims, msg));
                }
                (Ok(r), Ok((d, v))) => {
                    l.count("admissible");
                    if c.a.len() > 2 || c.b.len() > 2 {
                        l.count("with_leading_dimensions");
                    }
                    if c.a.len() == 1 || c.b.len() == 1 {
                        l.count("rank1_forms");
                    }
                    l.outcome(digest_vals(d, v));
                    if d != &r.dims {
                        l.violation("product", case(), format!("dimensions {:?}, reference {:?}", d, r.dims));
                    } else if let Err(e) = if var >= 7 { cmp_slice_inf(v, &r.x, Part::Value) } else { cmp_slice(v, &r.x, Part::Value) } {
                        l.violation("product", case(), e);
                    }
                    if var >= 7 && r.x.iter().any(|d| d.v.is_infinite()) {
                        l.count("overflowing_results");
                    }
                }
            }
            l.sample(&case);
        }
    });
    // both operands are views of one buffer with different leading layouts (x and a reshape of x)
    let mut local = local;
    {
        let l = &mut local;
        for (ad, bd) in [
            (vec![2usize, 1, 2, 3], vec![1usize, 2, 2, 3]),
            (vec![2, 2, 3], vec![2, 1, 2, 3]),
            (vec![3, 1, 2, 2], vec![1, 3, 2, 2]),
            (vec![2, 3], vec![3, 2]),
            (vec![2, 2], vec![1, 2, 2]),
            (vec![4], vec![2, 2]),
        ] {
            for ta in [false, true] {
                for tb in [false, true] {
                    let case = || format!("matmul of a={} ta={} with its reshape {} tb={} (same buffer)", fmt_dims(&ad), ta as u8, fmt_dims(&bd), tb as u8);
                    if !l.want(&case) {
                        continue;
                    }
                    let n = numel(&ad);
                    let av = vals(n, 0, opts.seed % 3);
                    let ra = T::from_f64(ad.clone(), &av);
                    let rb = ra.reshape(&bd).unwrap();
                    let op = OpK::Matmul { ta, tb, bias: false };
                    let expect = apply_ref(&op, &[&ra, &rb]);
                    if let Err(RErr::Unspecified) | Err(RErr::Domain) = expect {
                        continue;
                    }
                    l.states += 1;
                    l.transitions += 1;
                    l.validated += 1;
                    let a = arr(&ad, &av);
                    let got = run_catch(|| {
                        let b = a.reshape(bd.clone());
                        let r = apply_impl(&op, &[&a, &b], 0);
                        (r.dimensions().to_vec(), r.values().to_vec())
                    });
                    match (&expect, &got) {
                        (Err(_), Err(_)) => {}
                        (Err(_), Ok((d, _))) => l.violation("aliased-views", case(), format!("must be refused but returned {:?}", d)),
                        (Ok(r), Err(m)) => l.violation("aliased-views", case(), format!("admissible (result {:?}) but panicked: {}", r.dims, m)),
                        (Ok(r), Ok((d, v))) => {
                            l.outcome(digest_vals(d, v));
                            if d != &r.dims {
                                l.violation("aliased-views", case(), format!("dimensions {:?}, reference {:?}", d, r.dims));
                            } else if let Err(e) = cmp_slice(v, &r.x, Part::Value) {
                                l.violation("aliased-views", case(), e);
                            }
                        }
                    }
                }
            }
        }
    }
    Explored {
        local,
        bounds: json!({"configurations": space.len(), "rows_inner_cols": if opts.tier == Tier::Quick {"1..3"} else {"1..4"},
                       "transposes": "all four", "leading_patterns": leading_patterns(),
                       "bias_forms": ["none", "[cols]", "[rows,cols]", "[1,cols]", "[1]", "[lead..,rows,cols]", "[lead..,1,cols]", "[1..,rows,cols]", "[cols+1] (refuse)"],
                       "valuations": variants}),
        rule: "every (rows,inner,cols) x 4 transpose combinations x all pairs of leading patterns x bias forms, inner-dimension mismatches, and the rank-1 forms; one matmul call compared with the definition per batch index, or required to be refused".into(),
        exhaustive: true,
        assumptions: vec![
            "rank-1 next to rank>=2 is a one-row matrix; two transposed vectors and additive terms outside the listed forms are not defined by the statement and are skipped".into(),
        ],
    }
}
