//! C04 - element-wise operations follow right-aligned broadcasting, or refuse (engine E1).

use crate::common::*;
use crate::ops::*;
use crate::refmodel::*;
use crate::shapes::*;
use crate::Explored;
use serde_json::json;

pub fn explore(opts: &Opts) -> Explored {
    let (rank, dim) = match opts.tier {
        Tier::Quick => (4, 3),
        Tier::Thorough => (4, 5),
    };
    let mut sh = shapes(rank, dim);
    sh.extend(long_shapes());
    // scalars that no binary format represents exactly (0.1, 1000/3) and, in double precision, scalars
    // outside the single-precision range: a scalar that is narrowed or re-derived on its way shows
    let mut ops = vec![OpK::Add, OpK::Sub, OpK::Mul, OpK::Div, OpK::Axpy(-2.0), OpK::Axpy(3.0), OpK::Axpy(0.1), OpK::Axpy(1000.0 / 3.0)];
    if !IS_F32 {
        ops.push(OpK::Axpy(1.0e40));
        ops.push(OpK::Axpy(-1.0e-50));
    }
    // 9: the second operand is subnormal (its reciprocal is not representable), the first has a zero
    let variants: Vec<u64> = if IS_F32 { vec![opts.seed % 3, (opts.seed + 1) % 3, 3, 4, 5, 9] } else { vec![opts.seed % 3, (opts.seed + 1) % 3, 3, 4, 5, 6, 9] };
    let n = sh.len() * sh.len();
    let local = par(opts, n, |i, l| {
        let a_dims = &sh[i / sh.len()];
        let b_dims = &sh[i % sh.len()];
        l.states += 1;
        for op in &ops {
            for &var in &variants {
                let case = || {
                    format!("op={} a={} b={} val={}", op.name(), fmt_dims(a_dims), fmt_dims(b_dims), var)
                };
                if !l.want(&case) {
                    continue;
                }
                if var == 9 && !matches!(op, OpK::Div | OpK::Mul) {
                    continue;
                }
                let (av, bv) = if var == 9 {
                    let (sa, sb) = if IS_F32 { ((2.0f64).powi(-120), (2.0f64).powi(-140)) } else { ((2.0f64).powi(-1000), (2.0f64).powi(-1060)) };
                    let mut av: Vec<f64> = vals(numel(a_dims), 0, 0).iter().map(|v| v * sa).collect();
                    av[0] = 0.0;
                    (av, vals(numel(b_dims), 1, 0).iter().map(|v| v * sb).collect())
                } else {
                    (vals(numel(a_dims), 0, var), vals(numel(b_dims), 1, var))
                };
                let ra = T::from_f64(a_dims.clone(), &av);
                let rb = T::from_f64(b_dims.clone(), &bv);
                // the reference's conditioning guard for divisors (|y| >= 0.05) protects derivative checks; the
                // quotient itself is defined for every non-zero divisor, subnormal ones included
                let expect = if var == 9 && matches!(op, OpK::Div) { ra.zip(&rb, |x, y| x.div(y)) } else { apply_ref(op, &[&ra, &rb]) };
                let a = arr(a_dims, &av);
                let b = arr(b_dims, &bv);
                let got = run_catch(|| {
                    let r = apply_impl(op, &[&a, &b], 0);
                    (r.dimensions().to_vec(), r.values().to_vec())
                });
                l.transitions += 1;
                l.validated += 1;
                match (&expect, &got) {
                    (Err(RErr::Refuse), Err(_)) => {
                        l.count("refused_as_required");
                        l.outcome(1);
                    }
                    (Err(RErr::Refuse), Ok((d, _))) => {
                        l.violation(
                            "refuse",
                            case(),
                            format!("inadmissible shapes must be refused, but a result of dimensions {:?} was returned", d),
                        );
                    }
                    (Err(_), _) => {
                        l.count("skipped_domain");
                    }
                    (Ok(r), Err(msg)) => {
                        l.violation(
                            "broadcast",
                            case(),
                            format!("admissible shapes (result {:?}) but the call panicked: {}", r.dims, msg),
                        );
                    }
                    (Ok(r), Ok((d, v))) => {
                        l.count("admissible");
                        if r.dims != a_dims[..] || r.dims != b_dims[..] {
                            l.count("admissible_with_broadcast");
                        }
                        l.outcome(digest_vals(d, v));
                        if d != &r.dims {
                            l.violation(
                                "broadcast",
                                case(),
                                format!("dimensions {:?}, reference {:?}", d, r.dims),
                            );
                        } else if let Err(e) = cmp_slice(v, &r.x, Part::Value) {
                            l.violation("broadcast", case(), e);
                        }
                    }
                }
                l.sample(&case);
            }
        }
    });
    // operands that are two views of one buffer (an array and a reshape of it with different dimensions)
    let mut local = local;
    {
        let alias = par(opts, sh.len(), |i, l| {
            let a_dims = &sh[i];
            let n = numel(a_dims);
            for d2 in shapes_with_numel(n, 4) {
                if &d2 == a_dims || broadcast_dims(a_dims, &d2).is_none() {
                    continue;
                }
                l.states += 1;
                for op in &ops {
                    for swap in [false, true] {
                        let case = || format!("op={} a={} with its reshape {} (same buffer){}", op.name(), fmt_dims(a_dims), fmt_dims(&d2), if swap { " swapped" } else { "" });
                        if !l.want(&case) {
                            continue;
                        }
                        let av = vals(n, 0, opts.seed % 3);
                        let ra = T::from_f64(a_dims.clone(), &av);
                        let rv = ra.reshape(&d2).unwrap();
                        let expect = if swap { apply_ref(op, &[&rv, &ra]) } else { apply_ref(op, &[&ra, &rv]) };
                        let expect = match expect {
                            Ok(e) => e,
                            Err(_) => continue,
                        };
                        let a = arr(a_dims, &av);
                        let got = run_catch(|| {
                            let v = a.reshape(d2.clone());
                            let r = if swap { apply_impl(op, &[&v, &a], 0) } else { apply_impl(op, &[&a, &v], 0) };
                            (r.dimensions().to_vec(), r.values().to_vec())
                        });
                        l.transitions += 1;
                        l.validated += 1;
                        match got {
                            Err(msg) => l.violation("aliased-views", case(), format!("panicked: {}", msg)),
                            Ok((d, v)) => {
                                l.outcome(digest_vals(&d, &v));
                                if d != expect.dims {
                                    l.violation("aliased-views", case(), format!("dimensions {:?}, reference {:?}", d, expect.dims));
                                } else if let Err(e) = cmp_slice(&v, &expect.x, Part::Value) {
                                    l.violation("aliased-views", case(), e);
                                }
                            }
                        }
                    }
                }
            }
        });
        local.merge(alias);
    }
    Explored {
        local,
        bounds: json!({"max_rank": rank, "max_dim": dim, "plus_long_shapes": long_shapes(), "shapes": sh.len(), "ordered_pairs": n,
                       "ops": ops.iter().map(|o| o.name()).collect::<Vec<_>>(), "valuations": variants}),
        rule: "every ordered pair of shapes of S(rank,dim) x {add,sub,mul,div,axpy with dyadic, non-dyadic and extreme scalars} x valuations (generic, constant, zero, tiny, subnormal divisors); a state is a shape pair, a transition one library call compared with the index-definition reference (value, dimensions, or mandatory refusal)".into(),
        exhaustive: true,
        assumptions: vec!["array contents are fixed generic valuations (distinct integers), not enumerated".into()],
    }
}
