//! C11 - one pass evaluates each node's derivative once, with its complete adjoint (E2, log oracle).

use crate::common::*;
use crate::gen::*;
use crate::ops::*;
use crate::prog::*;
use crate::Explored;
use serde_json::json;

fn long_leaves(var: u64) -> Vec<Leaf> {
    vec![
        Leaf { dims: vec![19], vals: (0..19).map(|i| ((i * 7 + 2) % 5) as f64 - 1.0 + var as f64).collect() },
        Leaf { dims: vec![19], vals: (0..19).map(|i| ((i * 3 + 1) % 4) as f64 - 2.0).collect() },
    ]
}

fn leaves(var: u64) -> Vec<Leaf> {
    vec![
        Leaf { dims: vec![2], vals: vec![2.0 + var as f64, 3.0] },
        Leaf { dims: vec![2], vals: vec![5.0, -1.0 - var as f64] },
    ]
}

fn check_one(p: &Program, mask: &[bool], root: usize, l: &mut Local, sub: &str, case: &dyn Fn() -> String) {
    let base = match eval_ref(p, mask, None) {
        Ok(b) => b,
        Err(_) => {
            l.count("skipped");
            return;
        }
    };
    let t = p.tracked(mask);
    let reached = p.reached(mask, root);
    l.transitions += 1;
    l.validated += 1;
    let got = run_catch(|| {
        let vals = exec_impl(p, mask);
        let _ = take_user_log();
        vals[root].backward(None);
        take_user_log()
    });
    let log = match got {
        Ok(l) => l,
        Err(msg) => {
            let _ = take_user_log();
            l.violation(sub, case(), format!("pass panicked: {}", msg));
            return;
        }
    };
    let mut h = 0xcbf29ce484222325u64;
    for e in &log {
        fnv(&mut h, &(e.tag as u32).to_le_bytes());
    }
    l.outcome(h);
    // expected invocations: reached op nodes that carry a graph
    let nl = p.nl();
    let mut pos: Vec<Option<usize>> = vec![None; p.nv()];
    for (i, e) in log.iter().enumerate() {
        if e.tag < nl || e.tag >= p.nv() {
            l.violation(sub, case(), format!("derivative of unknown node {} invoked", e.tag));
            return;
        }
        if pos[e.tag].is_some() {
            l.violation(sub, case(), format!("derivative of node v{} invoked more than once in one pass (log order {:?})", e.tag, log.iter().map(|e| e.tag).collect::<Vec<_>>()));
            return;
        }
        pos[e.tag] = Some(i);
    }
    for v in nl..p.nv() {
        let expected = reached[v] && t[v];
        match (expected, pos[v]) {
            (true, None) => {
                l.violation(sub, case(), format!("derivative of node v{} (in the differentiated graph) was never invoked", v));
                return;
            }
            (false, Some(_)) => {
                l.violation(sub, case(), format!("derivative of node v{} invoked although it is not in the differentiated graph", v));
                return;
            }
            _ => {}
        }
    }
    for v in nl..p.nv() {
        if !(reached[v] && t[v]) {
            continue;
        }
        let e = &log[pos[v].unwrap()];
        // complete adjoint
        let adj = match ref_adjoint(p, mask, root, None, v, &base) {
            Ok(a) => a,
            Err(_) => continue,
        };
        if e.delta_dims != adj.dims {
            l.violation(sub, case(), format!("node v{} received an adjoint of dimensions {:?}, expected {:?}", v, e.delta_dims, adj.dims));
            return;
        }
        if let Err(msg) = cmp_slice(&e.delta, &adj.x, Part::Tangent) {
            l.violation(sub, case(), format!("node v{} received a partial or wrong adjoint: {}; got {}", v, msg, fmt_vals(&e.delta)));
            return;
        }
        // the flags handed to the closure are the operands' tracking at the time of the operation
        let want_t: Vec<bool> = p.nodes[v - nl].args.iter().map(|&a| t[a]).collect();
        if e.tracked != want_t {
            l.violation(sub, case(), format!("node v{}: closure was told operands tracked={:?}, expected {:?}", v, e.tracked, want_t));
            return;
        }
        // after all its consumers
        for c in (v + 1)..p.nv() {
            if reached[c] && t[c] && p.nodes[c - nl].args.contains(&v) && t[v] {
                if pos[c].unwrap() > pos[v].unwrap() {
                    l.violation(sub, case(), format!("node v{} processed before its consumer v{}", v, c));
                    return;
                }
            }
        }
    }
}

/// What the user sees as one backward pass of a model is one pass: a logged user operation that feeds
/// the model's input - and possibly also its target (an auto-encoder step) or a penalty added by the
/// cost - has its derivative invoked exactly once, with the adjoint that the same layers and cost give
/// when composed by hand.
fn explore_model_pass(opts: &Opts) -> Local {
    use crate::nn::{build_layers, Act, ActStore, CostK, LayerCfg};
    use corgi::array::Array;
    use corgi::numbers::Float;
    let var = opts.seed % 3;
    let stacks: Vec<Vec<LayerCfg>> = vec![
        vec![LayerCfg::Dense { inp: 2, out: 2, act: Act::None }],
        vec![LayerCfg::Dense { inp: 2, out: 3, act: Act::Sigmoid }, LayerCfg::Dense { inp: 3, out: 2, act: Act::None }],
        vec![LayerCfg::Dense { inp: 2, out: 2, act: Act::Relu }],
    ];
    // target kinds: 0 an independent constant, 1 the logged operation's result itself, 2 a function of it
    let mut cases: Vec<(usize, u8, usize)> = Vec::new();
    for si in 0..stacks.len() {
        for tk in 0..3u8 {
            for rows in [1usize, 2, 3] {
                cases.push((si, tk, rows));
            }
        }
    }
    par(opts, cases.len(), |i, l| {
        let (si, tk, rows) = &cases[i];
        let cfgs = &stacks[*si];
        let case = || format!("Model::backward as one pass: model {} target kind {} rows {}", si, tk, rows);
        if !l.want(&case) {
            return;
        }
        l.states += 1;
        l.transitions += 2;
        l.validated += 1;
        let run = |through_model: bool| -> Result<Vec<LogEntry>, String> {
            run_catch(|| {
                let _ = take_user_log();
                let store = ActStore::new(cfgs);
                let mut layers = build_layers(cfgs, &store, 6 + var);
                let xv: Vec<Float> = (0..rows * 2).map(|k| 0.5 + 0.25 * ((k * 3 + var as usize) % 5) as Float - if k % 2 == 1 { 1.0 } else { 0.0 }).collect();
                let x = Array::from((vec![*rows, 2], xv)).tracked();
                let u = user_op(&OpK::UScale(2.0), &[&x], 7);
                let t = match tk {
                    0 => Array::from((vec![*rows, 2], vec![0.25; rows * 2])),
                    1 => u.clone(),
                    _ => u.sigmoid(),
                };
                let cost = CostK::Mse.make();
                if through_model {
                    let gd = corgi::optimizer::gd::GradientDescent::new(0.5);
                    let refs: Vec<&mut dyn corgi::layer::Layer> = layers.iter_mut().map(|b| &mut **b as &mut dyn corgi::layer::Layer).collect();
                    let mut model = corgi::model::Model::new(refs, &gd, &cost);
                    let _ = model.forward(u.clone());
                    let _ = take_user_log();
                    let _ = model.backward(t);
                } else {
                    let mut h = u.clone();
                    for ly in layers.iter() {
                        h = ly.forward(h);
                    }
                    let e = cost(&h, &t);
                    let _ = take_user_log();
                    e.backward(None);
                }
                take_user_log()
            })
        };
        match (run(true), run(false)) {
            (Err(m), _) | (_, Err(m)) => {
                let _ = take_user_log();
                l.violation("model-pass", case(), format!("panicked: {}", m));
            }
            (Ok(ml), Ok(hl)) => {
                l.outcome(digest_str(&format!("{}{}", ml.len(), hl.len())));
                if hl.len() != 1 {
                    l.violation("model-pass", case(), format!("composed by hand, the logged operation's derivative ran {} times", hl.len()));
                } else if ml.len() != 1 {
                    l.violation("model-pass", case(), format!("Model::backward invoked the derivative of the operation feeding the model {} times (adjoints {:?}); one pass invokes it once", ml.len(), ml.iter().map(|e| e.delta.clone()).collect::<Vec<_>>()));
                } else if ml[0].delta_dims != hl[0].delta_dims || ml[0].delta.iter().zip(&hl[0].delta).any(|(a, b)| a.to_bits() != b.to_bits() && (*a - *b).abs() > 8.0 * Float::EPSILON * (a.abs() + b.abs())) {
                    l.violation("model-pass", case(), format!("through the model the operation received {:?}, composed by hand {:?}", ml[0].delta, hl[0].delta));
                }
            }
        }
        l.sample(&case);
    })
}

pub fn explore(opts: &Opts) -> Explored {
    let var = opts.seed % 3;
    let spaces: Vec<(&str, Vec<OpK>, usize)> = match opts.tier {
        Tier::Quick => vec![
            ("uscale+umul+uident", vec![OpK::UScale(2.0), OpK::UMul, OpK::UIdent], 4),
            ("uscale+umul+uadd", vec![OpK::UScale(2.0), OpK::UMul, OpK::UAdd], 3),
        ],
        Tier::Thorough => vec![
            ("uscale+umul+uident", vec![OpK::UScale(2.0), OpK::UMul, OpK::UIdent], 5),
            ("uscale+umul+uadd", vec![OpK::UScale(2.0), OpK::UMul, OpK::UAdd], 4),
        ],
    };
    let threads = opts.threads.max(1);
    let mut total = Local::new(opts.only.clone());
    let mut stats = Vec::new();
    // the same kind of space on arrays longer than any block or lane width (pending adjoints of
    // nodes with several consumers are summed element-wise)
    {
        let (progs, _) = collect_programs(long_leaves(var), vec![OpK::UScale(2.0), OpK::UMul, OpK::UAdd], if opts.tier == Tier::Quick { 3 } else { 4 });
        let local = par(opts, progs.len(), |i, l| {
            let p = &progs[i];
            l.states += 1;
            for m in [0b11u32, 0b01] {
                let mask = vec![m & 1 != 0, m & 2 != 0];
                for root in p.nl()..p.nv() {
                    let case = || format!("{} mask={:02b} bw(v{})", p.describe(), m, root);
                    if !l.want(&case) {
                        continue;
                    }
                    check_one(p, &mask, root, l, "long-arrays", &case);
                }
            }
        });
        stats.push(json!({"alphabet": "uscale+umul+uadd on [19]-element leaves", "programs": progs.len()}));
        total.merge(local);
    }
    for (name, ops, n) in &spaces {
        let progs = std::sync::Mutex::new(0u64);
        let local = par(opts, threads, |ti, l| {
            let mut sink = |idx: u64, p: &Program| {
                if idx as usize % threads != ti {
                    return;
                }
                l.states += 1;
                for m in 0u32..4 {
                    let mask = vec![m & 1 != 0, m & 2 != 0];
                    let t = p.tracked(&mask);
                    // deviation bound 1: no handle deviation, or one tracked op node re-bound through
                    // `.tracked()` at one point of the construction (a no-op for the mathematics)
                    let mut variants: Vec<Program> = vec![p.clone()];
                    for v in p.nl()..p.nv() {
                        // handle deviations are explored for programs of up to 4 operation nodes
                        if !t[v] || p.nodes.len() > 4 {
                            continue;
                        }
                        for k in (v - p.nl())..p.nodes.len() {
                            let mut q = p.clone();
                            q.retrack.push((k, v));
                            variants.push(q);
                        }
                    }
                    for q in &variants {
                        for root in q.nl()..q.nv() {
                            let case = || format!("{} mask={:02b} bw(v{})", q.describe(), m, root);
                            if !l.want(&case) {
                                continue;
                            }
                            check_one(q, &mask, root, l, name, &case);
                            l.sample(&case);
                        }
                    }
                    // handles dropped before the pass (temporaries, re-bound variables): one op node's
                    // handle, or the handles of every op node except the root
                    if p.nodes.len() <= 4 {
                        for root in p.nl()..p.nv() {
                            let mut dvars: Vec<Program> = Vec::new();
                            for v in p.nl()..p.nv() {
                                if v != root {
                                    let mut q = p.clone();
                                    q.dropped.push(v);
                                    dvars.push(q);
                                }
                            }
                            if p.nodes.len() > 2 {
                                let mut q = p.clone();
                                q.dropped = (p.nl()..p.nv()).filter(|v| *v != root).collect();
                                dvars.push(q);
                            }
                            for q in &dvars {
                                let case = || format!("{} mask={:02b} bw(v{})", q.describe(), m, root);
                                if !l.want(&case) {
                                    continue;
                                }
                                check_one(q, &mask, root, l, name, &case);
                            }
                        }
                    }
                }
            };
            let mut g = Gen::new(leaves(var), ops.clone(), *n, &mut sink);
            g.max_abs = 1.0e14;
            g.run();
            if ti == 0 {
                *progs.lock().unwrap() = g.stats.programs;
            }
        });
        stats.push(json!({"alphabet": name, "max_nodes": n, "programs": *progs.lock().unwrap()}));
        total.merge(local);
    }
    // chains of self-products: 2^depth paths, depth invocations
    let max_depth = 24usize;
    {
        let l = &mut total;
        for depth in 1..=max_depth {
            let case = || format!("self-product chain depth={}", depth);
            if !l.want(&case) {
                continue;
            }
            l.states += 1;
            let mut p = Program { leaves: vec![Leaf { dims: vec![2], vals: vec![1.0, -1.0] }], nodes: Vec::new(), retrack: Vec::new(), frozen: Vec::new(), dropped: Vec::new() };
            for k in 0..depth {
                p.nodes.push(PNode { op: OpK::UMul, args: vec![k, k] });
            }
            let start = std::time::Instant::now();
            check_one(&p, &[true], depth, l, "chain", &case);
            if start.elapsed().as_secs_f64() > 5.0 {
                l.violation("chain", case(), "the pass took more than 5 s: work is not proportional to nodes and edges".into());
            }
            l.sample(&case);
            // the same chain written with re-binding, `x = umul(&x, &x)`: no intermediate handle survives
            if depth <= 16 {
                let case = || format!("self-product chain depth={} with re-binding (intermediate handles dropped)", depth);
                if l.want(&case) {
                    let mut q = p.clone();
                    q.dropped = (1..depth).collect();
                    let start = std::time::Instant::now();
                    check_one(&q, &[true], depth, l, "chain", &case);
                    if start.elapsed().as_secs_f64() > 5.0 {
                        l.violation("chain", case(), "the pass took more than 5 s: work is not proportional to nodes and edges".into());
                    }
                }
            }
        }
    }
    // one node with more consumers than a 16-bit counter can hold, summed by one n-ary user op
    {
        use corgi::array::{Array, BackwardOp, ForwardOp};
        use corgi::numbers::Float;
        use std::rc::Rc;
        let l = &mut total;
        for n in [300usize, 65537, 70000] {
            let case = || format!("one node with {} consumers", n);
            if !l.want(&case) {
                continue;
            }
            l.states += 1;
            l.transitions += 1;
            l.validated += 1;
            let r = run_catch(|| {
                let a = Array::from(vec![1.5 as Float]).tracked();
                let x = user_op(&OpK::UScale(2.0), &[&a], 1);
                let scaled: Vec<Array> = (0..n).map(|i| &x * (if i % 2 == 0 { 1.0 } else { 2.0 } as Float)).collect();
                let fwd: ForwardOp = Rc::new(|xs: &[&Array]| Array::from(vec![xs.iter().map(|v| v.values()[0]).sum::<Float>()]));
                let bwd: BackwardOp = Rc::new(move |_, t, d| {
                    log_push(2, &[], d);
                    t.iter().map(|tr| if *tr { Some(Array::from(d.values().to_vec())) } else { None }).collect()
                });
                let refs: Vec<&Array> = scaled.iter().collect();
                let y = Array::op(&refs, fwd, Some(bwd));
                let _ = take_user_log();
                y.backward(None);
                let ga: Option<Vec<Float>> = a.gradient().as_ref().map(|g| g.values().to_vec());
                (take_user_log(), ga)
            });
            match r {
                Err(m) => {
                    let _ = take_user_log();
                    l.violation("wide-fan-out", case(), format!("panicked: {}", m));
                }
                Ok((log, ga)) => {
                    let want_x: f64 = (0..n).map(|i| if i % 2 == 0 { 1.0 } else { 2.0 }).sum();
                    let xs: Vec<&LogEntry> = log.iter().filter(|e| e.tag == 1).collect();
                    l.outcome(digest_str(&format!("{}:{}", n, log.len())));
                    if xs.len() != 1 || log.iter().filter(|e| e.tag == 2).count() != 1 {
                        l.violation("wide-fan-out", case(), format!("the shared node's derivative ran {} times (deltas {:?}), the sum's {} times", xs.len(), xs.iter().map(|e| e.delta[0]).collect::<Vec<_>>(), log.iter().filter(|e| e.tag == 2).count()));
                    } else if xs[0].delta[0] as f64 != want_x {
                        l.violation("wide-fan-out", case(), format!("the shared node received {} instead of the complete adjoint {}", xs[0].delta[0], want_x));
                    } else if ga != Some(vec![(2.0 * want_x) as Float]) {
                        l.violation("wide-fan-out", case(), format!("gradient of the leaf {:?}, expected {}", ga, 2.0 * want_x));
                    }
                }
            }
            l.sample(&case);
        }
    }
    // histories: handles paused / resumed / re-bound between passes, with the same log oracle (E3)
    let machine_stats = {
        use crate::checks::c10::{base_cfg, run_all};
        use crate::machine::{Bounds, LeafSpec};
        let lv = vec![
            LeafSpec { dims: vec![2], vals: vec![2.0 + var as f64, 3.0], tracked: true },
            LeafSpec { dims: vec![2], vals: vec![5.0, -1.0], tracked: false },
        ];
        let mut cfgs = Vec::new();
        let mut m = base_cfg("user-ops/N3F2P2", lv.clone(), vec![OpK::UMul, OpK::UScale(3.0), OpK::UIdent], 5);
        m.bounds = match opts.tier {
            Tier::Quick => Bounds { builds: 2, flags: 2, passes: 2, depth: 6, ..Bounds::default() },
            Tier::Thorough => Bounds { builds: 3, flags: 2, passes: 2, depth: 6, ..Bounds::default() },
        };
        m.flag_kinds = vec![0, 1, 2, 3];
        m.touch_leaves = true;
        m.seeds = vec![0];
        m.check_log = true;
        cfgs.push(m);
        let (ml, st) = run_all(opts, cfgs);
        total.merge(ml);
        st
    };
    total.merge(explore_model_pass(opts));
    Explored {
        local: total,
        bounds: json!({"spaces": stats, "machines": machine_stats, "leaves": 2, "masks": "all 4", "roots": "every op node", "handle_deviations": "handles of one or of all non-root op nodes dropped before the pass; 0 or 1 re-binding of a tracked op node through .tracked() at any later point of the construction (programs of up to 4 op nodes)", "self_product_chain_depths": format!("1..{}", max_depth)}),
        rule: "plus an explicit-state BFS over histories of user-op builds, flag actions (pause / resume / tracked / untracked, on leaves and op nodes) and passes with the same log oracle on every pass. Every DAG in which every operation is a user op supplied through Array::op x masks x roots: per pass every reachable op node's closure is logged exactly once, unreachable ones never, with the complete adjoint (reference forward mode), the operand-tracking flags of the operation, and after all its consumers; self-product chains up to depth 24 need exactly depth invocations".into(),
        exhaustive: true,
        assumptions: vec!["the verdict uses user closures only; built-in derivative invocations are not part of it".into()],
    }
}
