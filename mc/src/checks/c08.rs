//! C08 - arrays are immutable: no operation changes an existing array's values or shape (E3).

use crate::checks::c10::{base_cfg, run_all};
use crate::common::*;
use crate::machine::*;
use crate::ops::*;
use crate::Explored;
use serde_json::json;

fn leaves(var: u64) -> Vec<LeafSpec> {
    vec![
        LeafSpec { dims: vec![2, 3], vals: vec![2.0, 3.0 + var as f64, 1.0, 5.0, -1.0, 4.0], tracked: true },
        LeafSpec { dims: vec![3], vals: vec![1.0, 2.0 + var as f64, -2.0], tracked: true },
        LeafSpec { dims: vec![2, 1], vals: vec![3.0, -2.0], tracked: false },
    ]
}

pub fn machines(opts: &Opts) -> Vec<MCfg> {
    let var = opts.seed % 3;
    let ops = vec![
        OpK::Add,
        OpK::Mul,
        OpK::Reshape(vec![6]),
        OpK::Reshape(vec![3, 2]),
        OpK::Sum(1),
        OpK::Matmul { ta: false, tb: true, bias: true },
        OpK::Neg,
    ];
    let mut out = Vec::new();
    let mk = |name: &str, b: Bounds, ops: Vec<OpK>, nslots: usize, merged: bool| {
        let mut m = base_cfg(name, leaves(var), ops, nslots);
        m.bounds = b;
        m.check_snapshot = true;
        m.check_ref = true;
        m.touch_leaves = true;
        m.rebind = true;
        m.seeds = vec![0, 1];
        m.flag_kinds = vec![1, 2];
        m.clear_vias = vec![0];
        m.update_slots = vec![0, 1, 2];
        m.merged = merged;
        m
    };
    let same = crate::checks::c10::same_shape_leaves(var);
    let mk_same = |name: &str, b: Bounds, ops: Vec<OpK>, nslots: usize| {
        let mut m = base_cfg(name, same.clone(), ops, nslots);
        m.bounds = b;
        m.check_snapshot = true;
        m.check_ref = true;
        m.seeds = vec![0, 3];
        m.clear_vias = vec![0];
        m
    };
    {
        let rl = vec![
            LeafSpec { dims: vec![3], vals: vec![1.0, -2.0, 3.0 + var as f64], tracked: true },
            LeafSpec { dims: vec![1, 3], vals: vec![2.0, 1.0, -1.0], tracked: true },
            LeafSpec { dims: vec![1, 3], vals: vec![1.0, 10.0, 100.0], tracked: false },
        ];
        let mut m = base_cfg("accumulate/rank-mismatch", rl, vec![OpK::Add, OpK::Mul], 6);
        m.bounds = Bounds { builds: 3, passes: 1, depth: 4, ..Bounds::default() };
        m.check_snapshot = true;
        m.check_ref = true;
        m.seeds = vec![0, 3];
        out.push(m);
        let mut m = base_cfg("accumulate/unmerged", crate::checks::c10::same_shape_leaves(var), vec![OpK::Add, OpK::Mul], 6);
        m.bounds = Bounds { builds: 1, passes: 3, fetches: 1, clears: 1, depth: 5, ..Bounds::default() };
        m.check_snapshot = true;
        m.check_ref = true;
        m.seeds = vec![0, 3];
        m.merged = false;
        out.push(m);
        let mut m = base_cfg("accumulate/three-passes", crate::checks::c10::same_shape_leaves(var), vec![OpK::Add, OpK::Mul], 6);
        m.bounds = Bounds { builds: 1, passes: 3, fetches: 2, depth: 6, ..Bounds::default() };
        m.check_snapshot = true;
        m.check_ref = true;
        m.seeds = vec![0];
        out.push(m);
    }
    match opts.tier {
        Tier::Quick => {
            out.push(mk(
                "pool/depth3",
                Bounds { builds: 2, passes: 2, clears: 1, drops: 1, clones: 1, flags: 1, fetches: 1, adopts: 0, updates: 1, depth: 3 },
                ops.clone(),
                5,
                true,
            ));
            // views and clones held across an optimizer update
            out.push(mk(
                "views-update/depth4",
                Bounds { builds: 2, passes: 1, clears: 0, drops: 1, clones: 1, flags: 1, fetches: 1, adopts: 0, updates: 1, depth: 4 },
                vec![OpK::Reshape(vec![6]), OpK::Mul],
                5,
                true,
            ));
            // gradient accumulation while the caller keeps the seed and fetched gradients
            out.push(mk_same(
                "accumulate/seed-handle",
                Bounds { builds: 2, passes: 2, fetches: 1, depth: 5, ..Bounds::default() },
                vec![OpK::Add, OpK::Mul],
                6,
            ));
        }
        Tier::Thorough => {
            out.push(mk(
                "pool/depth4",
                Bounds { builds: 3, passes: 2, clears: 1, drops: 1, clones: 1, flags: 1, fetches: 1, adopts: 1, updates: 2, depth: 4 },
                ops.clone(),
                6,
                true,
            ));
            out.push(mk(
                "views-update/depth5",
                Bounds { builds: 2, passes: 2, clears: 0, drops: 1, clones: 1, flags: 1, fetches: 1, adopts: 0, updates: 2, depth: 5 },
                vec![OpK::Reshape(vec![6]), OpK::Mul],
                5,
                true,
            ));
            out.push(mk_same(
                "accumulate/seed-handle",
                Bounds { builds: 3, passes: 2, fetches: 1, clones: 1, depth: 6, ..Bounds::default() },
                vec![OpK::Add, OpK::Mul, OpK::Neg],
                6,
            ));
            out.push(mk(
                "pool/depth3-unmerged",
                Bounds { builds: 2, passes: 2, clears: 1, drops: 1, clones: 1, flags: 1, fetches: 1, adopts: 0, updates: 1, depth: 3 },
                ops.clone(),
                5,
                false,
            ));
        }
    }
    out
}

/// Supporting information only (never a verdict): does the non-BLAS source contain `unsafe` or
/// interior mutability around the value buffer?
fn source_audit() -> serde_json::Value {
    let mut unsafe_sites = Vec::new();
    let mut values_decl = String::new();
    fn walk(dir: &std::path::Path, f: &mut dyn FnMut(&std::path::Path, &str)) {
        if let Ok(rd) = std::fs::read_dir(dir) {
            for e in rd.flatten() {
                let p = e.path();
                if p.is_dir() {
                    walk(&p, f);
                } else if p.extension().map(|x| x == "rs").unwrap_or(false) {
                    if let Ok(t) = std::fs::read_to_string(&p) {
                        f(&p, &t);
                    }
                }
            }
        }
    }
    walk(std::path::Path::new("/repo/src"), &mut |p, t| {
        let name = p.to_string_lossy().to_string();
        if name.ends_with("blas.rs") || name.ends_with("verif.rs") {
            return;
        }
        for (i, line) in t.lines().enumerate() {
            let code = line.split("//").next().unwrap_or("");
            if code.contains("unsafe") {
                unsafe_sites.push(format!("{}:{}", name, i + 1));
            }
            if code.trim_start().starts_with("values:") {
                values_decl = format!("{}:{}: {}", name, i + 1, code.trim());
            }
        }
    });
    json!({"unsafe_outside_blas": unsafe_sites, "values_field": values_decl})
}

pub fn explore(opts: &Opts) -> Explored {
    let (local, stats) = run_all(opts, machines(opts));
    Explored {
        local,
        bounds: json!({"machines": stats, "source_audit_supporting_information_only": source_audit()}),
        rule: "explicit-state BFS over histories of build (element-wise, reshape views, sum, matmul, re-binding over operands) / clone / drop / flag / backward / clear / fetch / adopt / optimizer update on every subset of the parameter handles while older clones and views are held; in every reached state every handle that existed before the action and was not itself re-bound shows bit-identical dimensions and values, and every handle still shows the values it was created with".into(),
        exhaustive: true,
        assumptions: vec!["the source audit (unsafe / interior mutability around values) is reported as supporting information and never decides".into()],
    }
}
