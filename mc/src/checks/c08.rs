//! C08 - arrays are immutable: no operation changes an existing array's values or shape (E3).

use crate::checks::c10::{base_cfg, run_all};
use crate::common::*;
use crate::machine::*;
use crate::ops::*;
use crate::Explored;
use corgi::array::Array;
use serde_json::json;

fn leaves(var: u64) -> Vec<LeafSpec> {
    vec![
        LeafSpec { dims: vec![2, 3], vals: vec![2.0, 3.0 + var as f64, 1.0, 5.0, -1.0, 4.0], tracked: true },
        LeafSpec { dims: vec![3], vals: vec![1.0, 2.0 + var as f64, -2.0], tracked: true },
        LeafSpec { dims: vec![2, 1], vals: vec![3.0, -2.0], tracked: false },
    ]
}

pub fn machines(opts: &Opts) -> Vec<MCfg> {
    let var = opts.seed % 3;
    let ops = vec![
        OpK::Add,
        OpK::Mul,
        OpK::Reshape(vec![6]),
        OpK::Reshape(vec![3, 2]),
        OpK::Sum(1),
        OpK::Matmul { ta: false, tb: true, bias: true },
        OpK::Neg,
    ];
    let mut out = Vec::new();
    let mk = |name: &str, b: Bounds, ops: Vec<OpK>, nslots: usize, merged: bool| {
        let mut m = base_cfg(name, leaves(var), ops, nslots);
        m.bounds = b;
        m.check_snapshot = true;
        m.check_ref = true;
        m.touch_leaves = true;
        m.rebind = true;
        m.seeds = vec![0, 1];
        m.flag_kinds = vec![1, 2];
        m.clear_vias = vec![0];
        m.update_slots = vec![0, 1, 2];
        m.merged = merged;
        m
    };
    let same = crate::checks::c10::same_shape_leaves(var);
    let mk_same = |name: &str, b: Bounds, ops: Vec<OpK>, nslots: usize| {
        let mut m = base_cfg(name, same.clone(), ops, nslots);
        m.bounds = b;
        m.check_snapshot = true;
        m.check_ref = true;
        m.seeds = vec![0, 3];
        m.clear_vias = vec![0];
        m
    };
    {
        let rl = vec![
            LeafSpec { dims: vec![3], vals: vec![1.0, -2.0, 3.0 + var as f64], tracked: true },
            LeafSpec { dims: vec![1, 3], vals: vec![2.0, 1.0, -1.0], tracked: true },
            LeafSpec { dims: vec![1, 3], vals: vec![1.0, 10.0, 100.0], tracked: false },
        ];
        let mut m = base_cfg("accumulate/rank-mismatch", rl, vec![OpK::Add, OpK::Mul], 6);
        m.bounds = Bounds { builds: 3, passes: 1, depth: 4, ..Bounds::default() };
        m.check_snapshot = true;
        m.check_ref = true;
        m.seeds = vec![0, 3];
        out.push(m);
        let mut m = base_cfg("accumulate/unmerged", crate::checks::c10::same_shape_leaves(var), vec![OpK::Add, OpK::Mul], 6);
        m.bounds = Bounds { builds: 1, passes: 3, fetches: 1, clears: 1, depth: 5, ..Bounds::default() };
        m.check_snapshot = true;
        m.check_ref = true;
        m.seeds = vec![0, 3];
        m.merged = false;
        out.push(m);
        let mut m = base_cfg("accumulate/three-passes", crate::checks::c10::same_shape_leaves(var), vec![OpK::Add, OpK::Mul], 6);
        m.bounds = Bounds { builds: 1, passes: 3, fetches: 2, depth: 6, ..Bounds::default() };
        m.check_snapshot = true;
        m.check_ref = true;
        m.seeds = vec![0];
        out.push(m);
    }
    {
        // an update between passes over a graph that still holds the old parameter: the new parameter is a
        // new array (a later pass over the old graph, and a second update, leave it alone)
        let mut m = base_cfg("update-then-old-graph", crate::checks::c10::same_shape_leaves(var), vec![OpK::Mul, OpK::Add], 5);
        m.bounds = Bounds { builds: 1, passes: 2, updates: 2, clones: 1, depth: if opts.tier == Tier::Quick { 5 } else { 6 }, ..Bounds::default() };
        m.check_snapshot = true;
        m.check_ref = true;
        m.seeds = vec![0];
        m.update_slots = vec![0, 1];
        out.push(m);
    }
    match opts.tier {
        Tier::Quick => {
            out.push(mk(
                "pool/depth3",
                Bounds { builds: 2, passes: 2, clears: 1, drops: 1, clones: 1, flags: 1, fetches: 1, adopts: 0, updates: 1, depth: 3, refusals: 1 },
                ops.clone(),
                5,
                true,
            ));
            // views and clones held across an optimizer update
            out.push(mk(
                "views-update/depth4",
                Bounds { builds: 2, passes: 1, clears: 0, drops: 1, clones: 1, flags: 1, fetches: 1, adopts: 0, updates: 1, depth: 4, refusals: 0 },
                vec![OpK::Reshape(vec![6]), OpK::Mul],
                5,
                true,
            ));
            // gradient accumulation while the caller keeps the seed and fetched gradients
            out.push(mk_same(
                "accumulate/seed-handle",
                Bounds { builds: 2, passes: 2, fetches: 1, depth: 5, ..Bounds::default() },
                vec![OpK::Add, OpK::Mul],
                6,
            ));
        }
        Tier::Thorough => {
            out.push(mk(
                "pool/depth4",
                Bounds { builds: 3, passes: 2, clears: 1, drops: 1, clones: 1, flags: 1, fetches: 1, adopts: 1, updates: 2, depth: 4, refusals: 1 },
                ops.clone(),
                6,
                true,
            ));
            out.push(mk(
                "views-update/depth5",
                Bounds { builds: 2, passes: 2, clears: 0, drops: 1, clones: 1, flags: 1, fetches: 1, adopts: 0, updates: 2, depth: 5, refusals: 0 },
                vec![OpK::Reshape(vec![6]), OpK::Mul],
                5,
                true,
            ));
            out.push(mk_same(
                "accumulate/seed-handle",
                Bounds { builds: 3, passes: 2, fetches: 1, clones: 1, depth: 6, ..Bounds::default() },
                vec![OpK::Add, OpK::Mul, OpK::Neg],
                6,
            ));
            out.push(mk(
                "pool/depth3-unmerged",
                Bounds { builds: 2, passes: 2, clears: 1, drops: 1, clones: 1, flags: 1, fetches: 1, adopts: 0, updates: 1, depth: 3, refusals: 0 },
                ops.clone(),
                5,
                false,
            ));
        }
    }
    out
}

/// Supporting information only (never a verdict): does the non-BLAS source contain `unsafe` or
/// interior mutability around the value buffer?
fn source_audit() -> serde_json::Value {
    let mut unsafe_sites = Vec::new();
    let mut values_decl = String::new();
    fn walk(dir: &std::path::Path, f: &mut dyn FnMut(&std::path::Path, &str)) {
        if let Ok(rd) = std::fs::read_dir(dir) {
            for e in rd.flatten() {
                let p = e.path();
                if p.is_dir() {
                    walk(&p, f);
                } else if p.extension().map(|x| x == "rs").unwrap_or(false) {
                    if let Ok(t) = std::fs::read_to_string(&p) {
                        f(&p, &t);
                    }
                }
            }
        }
    }
    walk(std::path::Path::new("/repo/src"), &mut |p, t| {
        let name = p.to_string_lossy().to_string();
        if name.ends_with("blas.rs") || name.ends_with("verif.rs") {
            return;
        }
        for (i, line) in t.lines().enumerate() {
            let code = line.split("//").next().unwrap_or("");
            if code.contains("unsafe") {
                unsafe_sites.push(format!("{}:{}", name, i + 1));
            }
            if code.trim_start().starts_with("values:") {
                values_decl = format!("{}:{}: {}", name, i + 1, code.trim());
            }
        }
    });
    json!({"unsafe_outside_blas": unsafe_sites, "values_field": values_decl})
}

/// A user-defined layer (the trait is public): y = x * w, plus parameters that its forward pass
/// never uses, listed before or after `w`.
struct SpareLayer {
    w: Array,
    spares: Vec<Array>,
    spares_first: bool,
}

impl corgi::layer::Layer for SpareLayer {
    fn forward(&self, input: Array) -> Array {
        &input * &self.w
    }
    fn parameters(&mut self) -> Vec<&mut Array> {
        let mut out: Vec<&mut Array> = Vec::new();
        if self.spares_first {
            out.extend(self.spares.iter_mut());
            out.push(&mut self.w);
        } else {
            out.push(&mut self.w);
            out.extend(self.spares.iter_mut());
        }
        out
    }
}

/// Model::update over layers with parameters that received no gradient: those parameter handles,
/// and every older handle, stay bit-identical - whatever their values happen to equal.
fn explore_model_spares(opts: &Opts) -> Local {
    use corgi::layer::Layer;
    use corgi::numbers::Float;
    let var = opts.seed % 3;
    let wv: Vec<Float> = vec![0.5, -1.0 + var as Float, 2.0];
    let xv: Vec<Float> = vec![1.0, 2.0, -0.5, 3.0, 0.25, 1.5];
    let tv: Vec<Float> = vec![0.0, 1.0, 2.0, -1.0, 0.5, 0.0];
    let lr: Float = 0.5;
    // spare value kinds: 0 equal to w, 1 equal to w after its update, 2 unrelated, 3 zeros
    let mut cases: Vec<(bool, Vec<u8>, bool, bool)> = Vec::new();
    for spares_first in [false, true] {
        for kinds in [vec![0u8], vec![1], vec![2], vec![3], vec![0, 0], vec![0, 2], vec![2, 0], vec![1, 0]] {
            for tracked in [true, false] {
                for two_layers in [false, true] {
                    cases.push((spares_first, kinds.clone(), tracked, two_layers));
                }
            }
        }
    }
    par(opts, cases.len(), |i, l| {
        let (spares_first, kinds, tracked, two_layers) = &cases[i];
        let case = || format!("model with unused parameters: spares {:?} {} w, spares tracked={}, {} layer(s)", kinds, if *spares_first { "before" } else { "after" }, tracked, if *two_layers { 2 } else { 1 });
        if !l.want(&case) {
            return;
        }
        l.states += 1;
        l.transitions += 1;
        l.validated += 1;
        let (wv, xv, tv) = (wv.clone(), xv.clone(), tv.clone());
        let r = run_catch(move || {
            let mut msgs: Vec<String> = Vec::new();
            // the values w takes after its first step in the one-layer model (computed on a separate copy)
            let new_w: Vec<Float> = {
                let w = Array::from((vec![3], wv.clone())).tracked();
                let x = Array::from((vec![2, 3], xv.clone()));
                let t = Array::from((vec![2, 3], tv.clone()));
                let out = &x * &w;
                let out = if *two_layers { &out * &w } else { out };
                let cost = corgi::cost::mse();
                let e = cost(&out, &t);
                e.backward(None);
                let g = w.gradient().clone().unwrap();
                wv.iter().zip(g.values()).map(|(p, q)| *p - lr * *q).collect()
            };
            let _ = &new_w;
            let mk = |kind: u8| -> Vec<Float> {
                match kind {
                    0 => wv.clone(),
                    1 => new_w.clone(),
                    2 => vec![7.0, 8.0, 9.0],
                    _ => vec![0.0; 3],
                }
            };
            let build = |first: bool| -> SpareLayer {
                SpareLayer {
                    w: Array::from((vec![3], wv.clone())).tracked(),
                    spares: kinds.iter().map(|k| { let a = Array::from((vec![3], mk(*k))); if *tracked { a.tracked() } else { a } }).collect(),
                    spares_first: first,
                }
            };
            let mut l1 = build(*spares_first);
            let mut l2 = build(!*spares_first);
            let held: Vec<Array> = l1.spares.iter().chain(l2.spares.iter()).cloned().collect();
            let held_w = l1.w.clone();
            let before: Vec<(Vec<usize>, Vec<Float>, bool)> = held.iter().map(|a| (a.dimensions().to_vec(), a.values().to_vec(), crate::checks::c09::is_tracked(a))).collect();
            let gd = corgi::optimizer::gd::GradientDescent::new(lr);
            let cost = corgi::cost::mse();
            {
                let mut layers: Vec<&mut dyn Layer> = vec![&mut l1];
                if *two_layers {
                    layers.push(&mut l2);
                }
                let mut model = corgi::model::Model::new(layers, &gd, &cost);
                for _ in 0..2 {
                    let _ = model.forward(Array::from((vec![2, 3], xv.clone())));
                    let _ = model.backward(Array::from((vec![2, 3], tv.clone())));
                    model.update();
                }
            }
            let after: Vec<&Array> = l1.spares.iter().chain(l2.spares.iter()).collect();
            for (k, (a, b)) in after.iter().zip(&before).enumerate() {
                if a.dimensions() != &b.0[..] || a.values().iter().zip(&b.1).any(|(x, y)| x.to_bits() != y.to_bits()) || a.values().len() != b.1.len() {
                    msgs.push(format!("unused parameter {} was {:?} {} and is {:?} {} after the updates", k, b.0, fmt_vals(&b.1), a.dimensions(), fmt_vals(a.values())));
                }
                if crate::checks::c09::is_tracked(a) != b.2 {
                    msgs.push(format!("unused parameter {}: tracking flag changed", k));
                }
                if a.gradient().is_some() {
                    msgs.push(format!("unused parameter {} holds a gradient", k));
                }
            }
            for (k, (a, b)) in held.iter().zip(&before).enumerate() {
                if a.dimensions() != &b.0[..] || a.values().iter().zip(&b.1).any(|(x, y)| x.to_bits() != y.to_bits()) {
                    msgs.push(format!("the older handle of unused parameter {} changed", k));
                }
            }
            if held_w.values() != &wv[..] {
                msgs.push("the older handle of w changed".into());
            }
            if l1.w.values() == &wv[..] {
                msgs.push("w did not move".into());
            }
            if !*two_layers && l2.w.values() != &wv[..] {
                msgs.push("a layer outside the model changed".into());
            }
            msgs
        });
        match r {
            Err(m) => l.violation("model-unused-parameters", case(), format!("panicked: {}", m)),
            Ok(msgs) => {
                l.outcome(digest_str(&format!("{}{}", case(), msgs.len())));
                if !msgs.is_empty() {
                    l.violation("model-unused-parameters", case(), msgs.join("; "));
                }
            }
        }
        l.sample(&case);
    })
}

/// An update whose gradients were written by hand under other dimensions (same element count): the
/// parameter handle keeps its dimensions, older handles keep everything.
fn explore_reshaped_gradients(opts: &Opts) -> Local {
    use corgi::numbers::Float;
    use corgi::optimizer::Optimizer;
    let var = opts.seed % 3;
    let dims_pool: Vec<Vec<usize>> = vec![vec![2, 3], vec![6], vec![3, 1, 2], vec![1, 4], vec![2, 2]];
    let mut cases: Vec<(usize, usize, usize)> = Vec::new();
    for a in 0..dims_pool.len() {
        for b in 0..dims_pool.len() {
            for which in 0..3usize {
                cases.push((a, b, which));
            }
        }
    }
    par(opts, cases.len(), |i, l| {
        let (a, b, which) = cases[i];
        let (da, db) = (&dims_pool[a], &dims_pool[b]);
        let case = || format!("update with hand-written gradients under other dimensions: parameters {:?} {:?}, reshaped gradient on {}", da, db, ["the first", "the second", "both"][which]);
        if !l.want(&case) {
            return;
        }
        l.states += 1;
        l.transitions += 1;
        l.validated += 1;
        let (da, db) = (da.clone(), db.clone());
        let r = run_catch(move || {
            let mut msgs: Vec<String> = Vec::new();
            let n = |d: &Vec<usize>| d.iter().product::<usize>();
            let other = |d: &Vec<usize>| -> Vec<usize> { if d.len() == 1 { vec![1, d[0]] } else { vec![n(d)] } };
            let mut p: Vec<Array> = vec![
                Array::from((da.clone(), crate::shapes::vals_signed(n(&da), 0, var).iter().map(|v| *v as Float).collect::<Vec<Float>>())).tracked(),
                Array::from((db.clone(), crate::shapes::vals_signed(n(&db), 1, var).iter().map(|v| *v as Float).collect::<Vec<Float>>())).tracked(),
            ];
            let older: Vec<Array> = p.iter().cloned().collect();
            let before: Vec<(Vec<usize>, Vec<Float>)> = p.iter().map(|x| (x.dimensions().to_vec(), x.values().to_vec())).collect();
            for k in 0..2 {
                let d = if k == 0 { &da } else { &db };
                let reshaped = which == 2 || which == k;
                let gd = if reshaped { other(d) } else { d.clone() };
                *p[k].gradient_mut() = Some(Array::from((gd, crate::shapes::vals(n(d), k + 2, var).iter().map(|v| *v as Float).collect::<Vec<Float>>())));
            }
            let opt = corgi::optimizer::gd::GradientDescent::new(0.5);
            opt.update(p.iter_mut().collect());
            for k in 0..2 {
                if p[k].dimensions() != &before[k].0[..] {
                    msgs.push(format!("parameter {} shows dimensions {:?} after the update, {:?} before", k, p[k].dimensions(), before[k].0));
                }
                if p[k].values().len() != before[k].1.len() {
                    msgs.push(format!("parameter {} changed its element count", k));
                }
                if older[k].dimensions() != &before[k].0[..] || older[k].values().iter().zip(&before[k].1).any(|(x, y)| x.to_bits() != y.to_bits()) {
                    msgs.push(format!("the older handle of parameter {} changed", k));
                }
            }
            msgs
        });
        match r {
            Err(m) => l.violation("update-reshaped-gradient", case(), format!("panicked: {}", m)),
            Ok(msgs) => {
                l.outcome(digest_str(&format!("{}{}", case(), msgs.len())));
                if !msgs.is_empty() {
                    l.violation("update-reshaped-gradient", case(), msgs.join("; "));
                }
            }
        }
        l.sample(&case);
    })
}

/// Forward passes through a layer (alone or inside a model, one or several, with inputs of different
/// sizes) leave what `parameters()` shows exactly as it was: dimensions, values and flags.
fn explore_forward_keeps_parameters(opts: &Opts) -> Local {
    use crate::nn::{build_layers, Act, ActStore, CostK, LayerCfg};
    use corgi::numbers::Float;
    let var = opts.seed % 3;
    let layers: Vec<(LayerCfg, Vec<Vec<usize>>)> = vec![
        (LayerCfg::Dense { inp: 2, out: 3, act: Act::Sigmoid }, vec![vec![2], vec![1, 2], vec![3, 2], vec![2, 2, 2]]),
        (LayerCfg::Dense { inp: 3, out: 1, act: Act::None }, vec![vec![3], vec![4, 3]]),
        (LayerCfg::Conv { count: 2, depth: 1, fr: 2, fc: 2, sr: 1, sc: 1, act: Act::Relu }, vec![vec![1, 3, 3], vec![2, 1, 3, 3], vec![1, 4, 5], vec![1, 2, 2]]),
        (LayerCfg::Conv { count: 3, depth: 2, fr: 1, fc: 2, sr: 1, sc: 2, act: Act::None }, vec![vec![2, 2, 4], vec![2, 2, 3, 6]]),
    ];
    let mut cases: Vec<(usize, Vec<usize>, bool)> = Vec::new();
    for (li, (_, inputs)) in layers.iter().enumerate() {
        // every ordered pair of inputs (the second call may see another size), alone and inside a model
        for a in 0..inputs.len() {
            for b in 0..inputs.len() {
                for in_model in [false, true] {
                    cases.push((li, vec![a, b], in_model));
                }
            }
        }
    }
    par(opts, cases.len(), |i, l| {
        let (li, seq, in_model) = &cases[i];
        let (cfg, inputs) = &layers[*li];
        let case = || format!("forward keeps parameters: {} inputs {:?} then {:?}{}", cfg.describe(), inputs[seq[0]], inputs[seq[1]], if *in_model { " inside a model" } else { "" });
        if !l.want(&case) {
            return;
        }
        l.states += 1;
        l.transitions += 1;
        l.validated += 1;
        let r = run_catch(|| {
            let mut msgs: Vec<String> = Vec::new();
            let cfgs = vec![cfg.clone()];
            let store = ActStore::new(&cfgs);
            let mut ls = build_layers(&cfgs, &store, 9 + var);
            let snap = |ls: &mut Vec<Box<dyn corgi::layer::Layer + '_>>| -> Vec<(Vec<usize>, Vec<Float>, bool, bool)> {
                ls[0].parameters().into_iter().map(|p| (p.dimensions().to_vec(), p.values().to_vec(), crate::checks::c09::is_tracked(p), p.gradient().is_some())).collect()
            };
            let before = snap(&mut ls);
            let older: Vec<Array> = ls[0].parameters().into_iter().map(|p| p.clone()).collect();
            let mk = |d: &Vec<usize>, k: usize| -> Array { let n: usize = d.iter().product(); Array::from((d.clone(), (0..n).map(|j| (0.25 * ((j + k) % 5) as f64 - 0.5) as Float).collect::<Vec<Float>>())) };
            if *in_model {
                let gd = corgi::optimizer::gd::GradientDescent::new(0.5);
                let cost = CostK::Mse.make();
                let refs: Vec<&mut dyn corgi::layer::Layer> = ls.iter_mut().map(|b| &mut **b as &mut dyn corgi::layer::Layer).collect();
                let mut model = corgi::model::Model::new(refs, &gd, &cost);
                for (k, s) in seq.iter().enumerate() {
                    let _ = model.forward(mk(&inputs[*s], k));
                }
            } else {
                for (k, s) in seq.iter().enumerate() {
                    let _ = ls[0].forward(mk(&inputs[*s], k));
                }
            }
            let after = snap(&mut ls);
            for (k, (b, a)) in before.iter().zip(&after).enumerate() {
                if a.0 != b.0 || a.1.len() != b.1.len() || a.1.iter().zip(&b.1).any(|(x, y)| x.to_bits() != y.to_bits()) {
                    msgs.push(format!("parameter {} was {:?} {} before the forward passes and is {:?} {} after them", k, b.0, fmt_vals(&b.1), a.0, fmt_vals(&a.1)));
                }
                if a.2 != b.2 || a.3 != b.3 {
                    msgs.push(format!("parameter {}: tracking flag or gradient presence changed by forward passes", k));
                }
            }
            for (k, (o, b)) in older.iter().zip(&before).enumerate() {
                if o.dimensions() != &b.0[..] || o.values().iter().zip(&b.1).any(|(x, y)| x.to_bits() != y.to_bits()) {
                    msgs.push(format!("the older handle of parameter {} changed", k));
                }
            }
            msgs
        });
        match r {
            Err(m) => l.violation("forward-keeps-parameters", case(), format!("panicked: {}", m)),
            Ok(msgs) => {
                l.outcome(digest_str(&format!("{}{}", case(), msgs.len())));
                if !msgs.is_empty() {
                    l.violation("forward-keeps-parameters", case(), msgs.join("; "));
                }
            }
        }
        l.sample(&case);
    })
}

pub fn explore(opts: &Opts) -> Explored {
    let (mut local, stats) = run_all(opts, machines(opts));
    local.merge(explore_forward_keeps_parameters(opts));
    local.merge(explore_model_spares(opts));
    local.merge(explore_reshaped_gradients(opts));
    Explored {
        local,
        bounds: json!({"machines": stats, "source_audit_supporting_information_only": source_audit()}),
        rule: "explicit-state BFS over histories of build (element-wise, reshape views, sum, matmul, re-binding over operands) / clone / drop / flag / backward / clear / fetch / adopt / optimizer update on every subset of the parameter handles while older clones and views are held; in every reached state every handle that existed before the action and was not itself re-bound shows bit-identical dimensions and values, and every handle still shows the values it was created with".into(),
        exhaustive: true,
        assumptions: vec!["the source audit (unsafe / interior mutability around values) is reported as supporting information and never decides".into()],
    }
}
