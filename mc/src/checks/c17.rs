//! C17 - gradients are linear in the seed; an omitted seed means all ones (E2, metamorphic).

use crate::checks::c01::{core_ops, full_ops, zero_ops, Space};
use crate::common::*;
use crate::gen::*;
use crate::prog::*;
use crate::progcheck::*;
use crate::Explored;
use corgi::numbers::Float;
use serde_json::json;

type Grads = Vec<Option<(Vec<usize>, Vec<Float>)>>;

fn grads(p: &Program, mask: &[bool], root: usize, seed: Option<Vec<f64>>) -> Result<Grads, String> {
    observe_impl(p, mask, &[Pass { root, seed }]).map(|o| o.grads)
}

/// One instance of the program kept alive (all results held), one pass per seed; after each pass the
/// gradient of every value is collected with `replace_gradient()` (which empties the slot).
fn grads_shared(p: &Program, mask: &[bool], root: usize, seeds: &[Option<Vec<f64>>]) -> Result<Vec<Grads>, String> {
    run_catch(|| {
        let vals = exec_impl(p, mask);
        let mut out = Vec::new();
        for s in seeds {
            let seed = s.as_ref().map(|s| arr(vals[root].dimensions(), s));
            vals[root].backward(seed);
            out.push(vals.iter().map(|a| a.replace_gradient().map(|g| (g.dimensions().to_vec(), g.values().to_vec()))).collect::<Grads>());
        }
        out
    })
}

fn same_grads(a: &Grads, b: &Grads) -> bool {
    a.len() == b.len()
        && a.iter().zip(b).all(|(x, y)| match (x, y) {
            (None, None) => true,
            (Some(x), Some(y)) => x.0 == y.0 && x.1.len() == y.1.len() && x.1.iter().zip(&y.1).all(|(p, q)| p.to_bits() == q.to_bits() || (*p == 0.0 && *q == 0.0)),
            _ => false,
        })
}

fn spaces(tier: Tier, var: u64) -> Vec<Space> {
    match tier {
        Tier::Quick => vec![
            Space { name: "same-shape/core", leaves: same_shape_pool(var), ops: core_ops(), max_nodes: 2, masks: None, deviations_upto: 0 },
            Space { name: "same-shape/zero", leaves: same_shape_pool(var), ops: zero_ops(), max_nodes: 2, masks: None, deviations_upto: 0 },
            Space { name: "broadcast/full", leaves: broadcast_pool(var), ops: full_ops(), max_nodes: 2, masks: Some(vec![0b1111, 0b0110]), deviations_upto: 0 },
        ],
        Tier::Thorough => vec![
            Space { name: "same-shape/core", leaves: same_shape_pool(var), ops: core_ops(), max_nodes: 3, masks: None, deviations_upto: 0 },
            Space { name: "same-shape/zero", leaves: same_shape_pool(var), ops: zero_ops(), max_nodes: 3, masks: None, deviations_upto: 0 },
            Space { name: "broadcast/full", leaves: broadcast_pool(var), ops: full_ops(), max_nodes: 2, masks: None, deviations_upto: 0 },
        ],
    }
}

pub fn explore(opts: &Opts) -> Explored {
    let var = opts.seed % 3;
    let coeffs: [(f64, f64); 4] = [(1.0, 1.0), (2.0, -3.0), (0.0, 1.0), (-1.0, 0.5)];
    let threads = opts.threads.max(1);
    let mut total = Local::new(opts.only.clone());
    let mut stats = Vec::new();
    for sp in spaces(opts.tier, var) {
        let nl = sp.leaves.len();
        let masks: Vec<u32> = match &sp.masks {
            Some(m) => m.clone(),
            None => (1..(1u32 << nl)).collect(),
        };
        let progs = std::sync::Mutex::new(0u64);
        let local = par(opts, threads, |ti, l| {
            let mut sink = |idx: u64, p: &Program| {
                if idx as usize % threads != ti {
                    return;
                }
                l.states += 1;
                for &m in &masks {
                    let mask: Vec<bool> = (0..nl).map(|k| m & (1 << k) != 0).collect();
                    let base = match eval_ref(p, &mask, None) {
                        Ok(b) => b,
                        Err(_) => continue,
                    };
                    for root in p.nl()..p.nv() {
                        let n = base[root].len();
                        let case = || format!("{} mask={:0w$b} root=v{}", p.describe(), m, root, w = nl).replace(' ', "");
                        if !l.want(&case) {
                            continue;
                        }
                        // omitted seed == ones, bit for bit
                        l.transitions += 2;
                        l.validated += 1;
                        let g_none = grads(p, &mask, root, None);
                        let g_ones = grads(p, &mask, root, Some(vec![1.0; n]));
                        match (&g_none, &g_ones) {
                            (Ok(a), Ok(b)) => {
                                let same = a.len() == b.len()
                                    && a.iter().zip(b).all(|(x, y)| match (x, y) {
                                        (None, None) => true,
                                        (Some(x), Some(y)) => x.0 == y.0 && x.1.iter().zip(&y.1).all(|(p, q)| p.to_bits() == q.to_bits() || (*p == 0.0 && *q == 0.0)),
                                        _ => false,
                                    });
                                if !same {
                                    l.violation("omitted-seed", case(), format!("backward(None) and backward(ones) differ: {:?} vs {:?}", a, b));
                                    continue;
                                }
                            }
                            (Err(e), _) | (_, Err(e)) => {
                                l.violation("omitted-seed", case(), format!("panicked: {}", e));
                                continue;
                            }
                        }
                        // running error bounds of every adjoint entry (reference shadows): the tolerance of the
                        // comparison, so that cancellation (e.g. d(x/x)/dx = 0) cannot raise a false alarm
                        let reached = p.reached(&mask, root);
                        let mut shadow: Vec<Option<Vec<Vec<f64>>>> = vec![None; p.nv()];
                        let mut dom_ok = true;
                        for v in 0..p.nv() {
                            if reached[v] {
                                match ref_jacobian(p, &mask, root, v, &base) {
                                    Ok(j) => shadow[v] = Some(j.rows.iter().map(|r| r.iter().map(|d| d.md).collect()).collect()),
                                    Err(_) => dom_ok = false,
                                }
                            }
                        }
                        if !dom_ok {
                            l.count("skipped_domain");
                            continue;
                        }
                        // seed pairs: generic/generic and one-hot/complement
                        let gen1 = seed_vals(n, opts.seed);
                        let gen2: Vec<f64> = seed_vals(n, opts.seed + 1).iter().rev().cloned().collect();
                        let mut hot = vec![0.0; n];
                        hot[(opts.seed as usize) % n] = 1.0;
                        let comp: Vec<f64> = hot.iter().map(|h| 1.0 - h).collect();
                        // the same program instance reused (results kept alive, gradients collected and cleared
                        // with replace_gradient between the passes) produces what fresh instances produce
                        {
                            let s12: Vec<f64> = gen1.iter().zip(gen2.iter()).map(|(a, b)| 2.0 * a - 3.0 * b).collect();
                            let seeds: Vec<Option<Vec<f64>>> = vec![None, Some(gen1.clone()), Some(gen2.clone()), Some(s12)];
                            l.transitions += 1 + seeds.len() as u64;
                            l.validated += 1;
                            match grads_shared(p, &mask, root, &seeds) {
                                Err(e) => {
                                    l.violation("reused-instance", case(), format!("panicked: {}", e));
                                    continue;
                                }
                                Ok(shared) => {
                                    let mut bad = false;
                                    for (k, sd) in seeds.iter().enumerate() {
                                        match grads(p, &mask, root, sd.clone()) {
                                            Ok(fresh) => {
                                                if !same_grads(&fresh, &shared[k]) {
                                                    l.violation("reused-instance", case(), format!("pass {} on a reused instance (gradients cleared with replace_gradient after each pass) gives {:?}, a fresh instance gives {:?}", k, shared[k], fresh));
                                                    bad = true;
                                                    break;
                                                }
                                            }
                                            Err(e) => {
                                                l.violation("reused-instance", case(), format!("panicked: {}", e));
                                                bad = true;
                                                break;
                                            }
                                        }
                                    }
                                    if bad {
                                        continue;
                                    }
                                }
                            }
                        }
                        for (pi, (s1, s2)) in [(gen1, gen2), (hot, comp)].iter().enumerate() {
                            let g1 = grads(p, &mask, root, Some(s1.clone()));
                            let g2 = grads(p, &mask, root, Some(s2.clone()));
                            let (g1, g2) = match (g1, g2) {
                                (Ok(a), Ok(b)) => (a, b),
                                (Err(e), _) | (_, Err(e)) => {
                                    l.violation("linearity", case(), format!("panicked: {}", e));
                                    break;
                                }
                            };
                            l.transitions += 2;
                            let mut bad = false;
                            for (al, be) in coeffs.iter() {
                                let s12: Vec<f64> = s1.iter().zip(s2.iter()).map(|(a, b)| al * a + be * b).collect();
                                l.transitions += 1;
                                l.validated += 1;
                                let g12 = match grads(p, &mask, root, Some(s12)) {
                                    Ok(g) => g,
                                    Err(e) => {
                                        l.violation("linearity", case(), format!("panicked: {}", e));
                                        bad = true;
                                        break;
                                    }
                                };
                                let mut h = 0xcbf29ce484222325u64;
                                for v in 0..g12.len() {
                                    match (&g1[v], &g2[v], &g12[v]) {
                                        (None, None, None) => {}
                                        (Some(a), Some(b), Some(c)) => {
                                            fnv(&mut h, &digest_vals(&c.0, &c.1).to_le_bytes());
                                            if a.0 != c.0 || b.0 != c.0 {
                                                l.violation("linearity", case(), format!("gradient of v{} changes dimensions with the seed", v));
                                                bad = true;
                                                break;
                                            }
                                            for i in 0..c.1.len() {
                                                let want = al * a.1[i] as f64 + be * b.1[i] as f64;
                                                let mut scale = (al * a.1[i] as f64).abs() + (be * b.1[i] as f64).abs() + (c.1[i] as f64).abs();
                                                if let Some(sh) = &shadow[v] {
                                                    if i < sh.len() {
                                                        for (k, md) in sh[i].iter().enumerate() {
                                                            scale += ((al * s1[k]).abs() + (be * s2[k]).abs()) * 2.0 * md;
                                                        }
                                                    }
                                                }
                                                if ((c.1[i] as f64) - want).abs() > tau() * scale.max(1e-30) * 4.0 {
                                                    l.violation(
                                                        "linearity",
                                                        case(),
                                                        format!(
                                                            "seed pair {} coefficients ({}, {}): gradient of v{} element {} is {} but alpha*g(s1)+beta*g(s2) = {} (g(s1)={}, g(s2)={})",
                                                            pi, al, be, v, i, c.1[i], want, a.1[i], b.1[i]
                                                        ),
                                                    );
                                                    bad = true;
                                                    break;
                                                }
                                            }
                                        }
                                        _ => {
                                            l.violation("linearity", case(), format!("gradient presence of v{} depends on the seed", v));
                                            bad = true;
                                        }
                                    }
                                    if bad {
                                        break;
                                    }
                                }
                                l.outcome(h);
                                if bad {
                                    break;
                                }
                            }
                            if bad {
                                break;
                            }
                        }
                        l.sample(&case);
                    }
                }
            };
            let mut g = Gen::new(sp.leaves.clone(), sp.ops.clone(), sp.max_nodes, &mut sink);
            g.run();
            if ti == 0 {
                *progs.lock().unwrap() = g.stats.programs;
            }
        });
        stats.push(json!({"space": sp.name, "max_nodes": sp.max_nodes, "programs": *progs.lock().unwrap(), "masks": masks.len()}));
        total.merge(local);
    }
    Explored {
        local: total,
        bounds: json!({"spaces": stats, "seed_pairs": ["generic/generic", "one-hot/complement"], "coefficients": coeffs.iter().map(|c| vec![c.0, c.1]).collect::<Vec<_>>(), "roots": "every op node"}),
        rule: "every program x non-empty masks x roots: fresh instances run with s1, s2 and alpha*s1+beta*s2 must satisfy g(alpha*s1+beta*s2) = alpha*g(s1)+beta*g(s2) for every value holding a gradient (implementation against implementation, no reference), and backward(None) must equal backward(ones) bit for bit".into(),
        exhaustive: true,
        assumptions: vec!["seeds are untracked, graph-free arrays of the result's shape".into()],
    }
}
