//! C09 - tracking decides exactly where gradients are computed and stored (E1 part + E3 part).

use crate::common::*;
use crate::ops::*;
use crate::prog::*;
use crate::refmodel::*;
use crate::shapes::*;
use crate::Explored;
use corgi::array::Array;
use corgi::numbers::Float;
use serde_json::json;

/// the operation instances of the iff-rule sweep: (op, operand dims)
pub fn iff_ops() -> Vec<(OpK, Vec<Vec<usize>>)> {
    let v2 = vec![2usize];
    let m23 = vec![2usize, 3];
    let v3 = vec![3usize];
    let mut out: Vec<(OpK, Vec<Vec<usize>>)> = Vec::new();
    for op in [OpK::Add, OpK::Sub, OpK::Mul, OpK::Div, OpK::Axpy(-2.0), OpK::UMul, OpK::UAdd] {
        out.push((op.clone(), vec![v2.clone(), v2.clone()]));
    }
    for op in [OpK::Add, OpK::Mul, OpK::Div] {
        out.push((op.clone(), vec![m23.clone(), v3.clone()]));
    }
    // a single-element operand on either side, of lower, equal and higher rank than the other operand
    for op in [OpK::Add, OpK::Sub, OpK::Mul, OpK::Div, OpK::Axpy(-2.0)] {
        for one in [vec![1usize], vec![1, 1], vec![1, 1, 1]] {
            for other in [v3.clone(), m23.clone(), vec![1usize]] {
                out.push((op.clone(), vec![other.clone(), one.clone()]));
                out.push((op.clone(), vec![one.clone(), other.clone()]));
            }
        }
    }
    for op in [
        OpK::Neg,
        OpK::Scale(3.0),
        OpK::Powf(2.0),
        OpK::Powf(0.5),
        OpK::Ln,
        OpK::Exp,
        OpK::Recip,
        OpK::Relu,
        OpK::Sigmoid,
        OpK::Softmax,
        OpK::Sum(1),
        OpK::Sum(2),
        OpK::Reshape(vec![3, 2]),
        OpK::UScale(2.0),
        OpK::UIdent,
    ] {
        out.push((op, vec![m23.clone()]));
    }
    for &ta in &[false, true] {
        for &tb in &[false, true] {
            let a = if ta { vec![3, 2] } else { vec![2, 3] };
            let b = if tb { vec![2, 3] } else { vec![3, 2] };
            out.push((OpK::Matmul { ta, tb, bias: false }, vec![a.clone(), b.clone()]));
            out.push((OpK::Matmul { ta, tb, bias: true }, vec![a.clone(), b.clone(), vec![2]]));
            out.push((OpK::Matmul { ta, tb, bias: true }, vec![a.clone(), b.clone(), vec![2, 2]]));
        }
    }
    out.push((OpK::Matmul { ta: false, tb: false, bias: false }, vec![vec![3], vec![3]]));
    out.push((OpK::Matmul { ta: false, tb: true, bias: true }, vec![vec![2, 2, 3], vec![2, 3], vec![2]]));
    // boundary geometries: filter as large as the image, one window, stride larger than the filter, batches
    for c in crate::spaces::conv_configs(3, 3, 2, &[1], &[1, 2], &[vec![], vec![2]]) {
        out.push((OpK::Conv { sr: c.sr, sc: c.sc }, vec![c.image.clone(), c.filters.clone()]));
    }
    for c in crate::spaces::matmul_configs(2, &[vec![], vec![2], vec![1, 2]], true) {
        let mut dims = vec![c.a.clone(), c.b.clone()];
        if let Some(cd) = &c.c {
            dims.push(cd.clone());
        }
        let shapes_ok = {
            let ts: Vec<T> = dims.iter().map(|d| T::from_f64(d.clone(), &vec![1.0; numel(d)])).collect();
            let refs: Vec<&T> = ts.iter().collect();
            apply_ref(&OpK::Matmul { ta: c.ta, tb: c.tb, bias: c.c.is_some() }, &refs).is_ok()
        };
        if shapes_ok {
            out.push((OpK::Matmul { ta: c.ta, tb: c.tb, bias: c.c.is_some() }, dims));
        }
    }
    out.push((OpK::Conv { sr: 1, sc: 1 }, vec![vec![1, 3, 3], vec![2, 1, 2, 2]]));
    out.push((OpK::Conv { sr: 2, sc: 1 }, vec![vec![2, 2, 3, 3], vec![1, 2, 2, 2]]));
    out
}

/// read a handle's tracking flag through the public API and restore it
pub fn is_tracked(a: &Array) -> bool {
    let t = a.stop_tracking();
    if t {
        a.start_tracking();
    }
    t
}

fn explore_iff(opts: &Opts) -> Local {
    let space = iff_ops();
    let var = opts.seed % 3;
    par(opts, space.len(), |i, l| {
        let (op, dims) = &space[i];
        let n = dims.len();
        l.states += 1;
        // per operand: 0 untracked leaf, 1 tracked leaf, 2 untracked intermediate (a result over a tracked
        // array whose handle was untracked(): it carries a graph but its flag is off)
        for m in 0u32..(3u32.pow(n as u32)) {
            let kinds: Vec<u32> = (0..n).map(|k| (m / 3u32.pow(k as u32)) % 3).collect();
            let mask: Vec<bool> = kinds.iter().map(|k| *k == 1).collect();
            let case = || format!("iff {} operands={} mask={:?}", op.name(), dims.iter().map(|d| fmt_dims(d)).collect::<Vec<_>>().join(","), kinds).replace(' ', "");
            if !l.want(&case) {
                continue;
            }
            l.transitions += 1;
            l.validated += 1;
            let r = run_catch(|| {
                let mut msgs = Vec::new();
                let mut bases: Vec<Option<Array>> = Vec::new();
                let leaves: Vec<Array> = dims
                    .iter()
                    .enumerate()
                    .map(|(k, d)| {
                        let a = arr(d, &vals_small(numel(d), k, var));
                        if kinds[k] == 2 {
                            let base = a.tracked();
                            let inter = (&base * 1.0).untracked();
                            bases.push(Some(base));
                            inter
                        } else {
                            bases.push(None);
                            if mask[k] {
                                a.tracked()
                            } else {
                                a
                            }
                        }
                    })
                    .collect();
                let result = {
                    let refs: Vec<&Array> = leaves.iter().collect();
                    apply_impl(op, &refs, 0)
                };
                let any = mask.iter().any(|b| *b);
                let flag = is_tracked(&result);
                if flag != any {
                    msgs.push(format!("result tracked = {} but {} operand(s) tracked", flag, mask.iter().filter(|b| **b).count()));
                }
                // flags of the operands are untouched by the operation
                for (k, a) in leaves.iter().enumerate() {
                    if is_tracked(a) != mask[k] {
                        msgs.push(format!("operand {} flag changed by the operation", k));
                    }
                }
                // gradient flow: a pass from the result stores gradients exactly on the tracked operands
                result.backward(None);
                for (k, a) in leaves.iter().enumerate() {
                    let has = a.gradient().is_some();
                    if has != mask[k] {
                        msgs.push(format!("operand {} (tracked={}) gradient present = {}", k, mask[k], has));
                    }
                    if is_tracked(a) != mask[k] {
                        msgs.push(format!("operand {} flag changed by the pass", k));
                    }
                    if let Some(g) = a.gradient().as_ref() {
                        if is_tracked(g) {
                            msgs.push(format!("gradient of operand {} is tracked", k));
                        }
                        // an operation on a gradient and an untracked array is untracked: no graph on gradients
                        let z = g * g;
                        if is_tracked(&z) {
                            msgs.push(format!("an operation on the gradient of operand {} is tracked", k));
                        }
                    }
                }
                if !result.gradient().is_some() {
                    msgs.push("the array the pass was started on stores no gradient".into());
                }
                // nothing flows through an untracked intermediate
                for (k, b) in bases.iter().enumerate() {
                    if matches!(op, OpK::Sum(0)) {
                        break; // the result is the operand itself
                    }
                    if let Some(b) = b {
                        if b.gradient().is_some() {
                            msgs.push(format!("the tracked array below the untracked intermediate operand {} received a gradient", k));
                        }
                    }
                }
                drop(bases);
                // ownership: with no tracked operand the result keeps no reference to its operands
                if !any && !matches!(op, OpK::Reshape(_) | OpK::Sum(0) | OpK::UIdent) {
                    for (k, a) in leaves.into_iter().enumerate() {
                        let ok = run_catch(move || Vec::<Float>::from(a).len());
                        if ok.is_err() {
                            msgs.push(format!("untracked operand {} is still referenced while the (untracked) result is alive", k));
                        }
                    }
                }
                let keep_alive = result.values().len();
                (msgs, keep_alive)
            });
            match r {
                Err(msg) => l.violation("iff", case(), format!("panicked: {}", msg)),
                Ok((msgs, _)) => {
                    l.outcome(digest_str(&format!("{}{:?}{}", op.name(), mask, msgs.len())));
                    if !msgs.is_empty() {
                        l.violation("iff", case(), msgs.join("; "));
                    }
                }
            }
            l.sample(&case);
        }
    })
}

pub fn machines(opts: &Opts) -> Vec<crate::machine::MCfg> {
    use crate::checks::c10::{base_cfg, same_shape_leaves};
    use crate::machine::Bounds;
    let var = opts.seed % 3;
    let mut out = Vec::new();
    match opts.tier {
        Tier::Quick => {
            // flags on handles and clones, untracked intermediates, two passes
            let two: Vec<crate::machine::LeafSpec> = same_shape_leaves(var).into_iter().enumerate().filter(|(i, _)| *i != 1).map(|(_, l)| l).collect();
            let mut m = base_cfg("flags/N2F2P2K1", two, vec![OpK::Mul], 4);
            m.bounds = Bounds { builds: 2, flags: 2, passes: 2, clones: 1, depth: 6, ..Bounds::default() };
            m.flag_kinds = vec![0, 1, 2, 3];
            m.touch_leaves = true;
            m.seeds = vec![0];
            out.push(m);
            // the full tree (history is the state): hidden state the probe does not know cannot be merged away
            let two_u: Vec<crate::machine::LeafSpec> = same_shape_leaves(var).into_iter().enumerate().filter(|(i, _)| *i != 1).map(|(_, l)| l).collect();
            let mut m = base_cfg("flags/N1F2P2K1-unmerged", two_u, vec![OpK::Mul], 4);
            m.bounds = Bounds { builds: 1, flags: 2, passes: 2, clones: 1, depth: 5, ..Bounds::default() };
            m.flag_kinds = vec![0, 1, 2, 3];
            m.touch_leaves = true;
            m.seeds = vec![0];
            m.merged = false;
            out.push(m);
            // views of views, paused and resumed
            let vl = vec![
                crate::machine::LeafSpec { dims: vec![2, 3], vals: vec![1.0, 2.0 + var as f64, -1.0, 0.5, 3.0, -2.0], tracked: true },
                crate::machine::LeafSpec { dims: vec![3], vals: vec![2.0, -1.0, 1.0], tracked: true },
            ];
            let mut m = base_cfg("views/N3F2P1", vl, vec![OpK::Reshape(vec![3, 2]), OpK::Reshape(vec![1, 2, 3]), OpK::Mul], 5);
            m.bounds = Bounds { builds: 3, flags: 1, passes: 1, depth: 5, ..Bounds::default() };
            m.flag_kinds = vec![1, 2, 3];
            m.touch_leaves = true;
            m.seeds = vec![0];
            out.push(m);
            // user operations (also the one whose derivative uses the operation again): untracked intermediates
            // as operands, fetched gradients must be plain arrays
            let mut m = base_cfg("user-ops/N2F1P1G1", same_shape_leaves(var), vec![OpK::UMulN, OpK::UMul], 6);
            m.bounds = Bounds { builds: 2, flags: 1, passes: 1, fetches: 1, depth: 5, ..Bounds::default() };
            m.flag_kinds = vec![1];
            m.seeds = vec![0];
            out.push(m);
            // fetched gradients are plain independent arrays: adopt them as leaves of a new graph
            let mut m = base_cfg("adopt/N2P2A2", same_shape_leaves(var), vec![OpK::Add, OpK::Mul], 6);
            m.bounds = Bounds { builds: 2, passes: 2, adopts: 2, fetches: 1, depth: 6, ..Bounds::default() };
            m.seeds = vec![0];
            out.push(m);
        }
        Tier::Thorough => {
            let mut m = base_cfg("flags/N2F2P2K1-three-leaves", same_shape_leaves(var), vec![OpK::Mul, OpK::Add], 5);
            m.bounds = Bounds { builds: 2, flags: 2, passes: 2, clones: 1, depth: 6, ..Bounds::default() };
            m.flag_kinds = vec![0, 1, 2, 3];
            m.touch_leaves = true;
            m.seeds = vec![0];
            out.push(m);
            let two: Vec<crate::machine::LeafSpec> = same_shape_leaves(var).into_iter().enumerate().filter(|(i, _)| *i != 1).map(|(_, l)| l).collect();
            let mut m = base_cfg("flags/N2F3P3K1C1", two.clone(), vec![OpK::Mul], 4);
            m.bounds = Bounds { builds: 2, flags: 3, passes: 3, clones: 1, clears: 1, depth: 8, ..Bounds::default() };
            m.flag_kinds = vec![0, 1, 2, 3];
            m.touch_leaves = true;
            m.seeds = vec![0];
            out.push(m);
            let mut m = base_cfg("flags/N3F2P2", two, vec![OpK::Mul, OpK::Neg], 5);
            m.bounds = Bounds { builds: 3, flags: 2, passes: 2, depth: 7, ..Bounds::default() };
            m.flag_kinds = vec![1, 2, 3];
            m.touch_leaves = true;
            m.seeds = vec![0];
            out.push(m);
            let mut m = base_cfg("adopt/N2P3A2G1", same_shape_leaves(var), vec![OpK::Add, OpK::Mul], 7);
            m.bounds = Bounds { builds: 2, passes: 3, adopts: 2, fetches: 1, depth: 6, ..Bounds::default() };
            m.seeds = vec![0];
            out.push(m);
            // the additive term of matmul: its gradient is a pass-through of the delta
            let sq = vec![
                crate::machine::LeafSpec { dims: vec![2, 2], vals: vec![1.0, 2.0 + var as f64, 3.0, -1.0], tracked: true },
                crate::machine::LeafSpec { dims: vec![2, 2], vals: vec![2.0, -1.0, 0.5, 1.5], tracked: true },
                crate::machine::LeafSpec { dims: vec![2], vals: vec![0.5, -2.0], tracked: true },
            ];
            let mut m = base_cfg("adopt/matmul-bias", sq, vec![OpK::Matmul { ta: false, tb: false, bias: true }, OpK::Mul], 7);
            m.bounds = Bounds { builds: 2, passes: 2, adopts: 2, depth: 6, ..Bounds::default() };
            m.seeds = vec![0];
            out.push(m);
        }
    }
    out
}

/// Model::forward / backward are operations and passes like any other: a tracked input receives its
/// gradient (the one the same layers give when applied by hand), an untracked input none; the output
/// is tracked iff the input or a parameter is.
fn explore_model_inputs(opts: &Opts) -> Local {
    use crate::nn::{build_layers, Act, ActStore, CostK, LayerCfg};
    let var = opts.seed % 3;
    let stacks: Vec<Vec<LayerCfg>> = vec![
        vec![LayerCfg::Dense { inp: 2, out: 2, act: Act::None }],
        vec![LayerCfg::Dense { inp: 2, out: 3, act: Act::Sigmoid }, LayerCfg::Dense { inp: 3, out: 2, act: Act::None }],
        vec![LayerCfg::Dense { inp: 2, out: 2, act: Act::Relu }, LayerCfg::Dense { inp: 2, out: 2, act: Act::Softmax }],
    ];
    let mut cases: Vec<(usize, bool, bool, Vec<usize>)> = Vec::new();
    for si in 0..stacks.len() {
        for x_tracked in [false, true] {
            for frozen in [false, true] {
                for input in [vec![2usize], vec![1, 2], vec![3, 2]] {
                    cases.push((si, x_tracked, frozen, input));
                }
            }
        }
    }
    par(opts, cases.len(), |i, l| {
        let (si, x_tracked, frozen, input) = &cases[i];
        let cfgs = &stacks[*si];
        let case = || format!("model {} input {:?} tracked={} parameters {}", si, input, x_tracked, if *frozen { "frozen" } else { "tracked" });
        if !l.want(&case) {
            return;
        }
        l.states += 1;
        l.transitions += 2;
        l.validated += 1;
        let r = run_catch(|| {
            let mut msgs: Vec<String> = Vec::new();
            let n: usize = input.iter().product();
            let xv: Vec<Float> = (0..n).map(|k| 0.5 + 0.25 * ((k * 3 + var as usize) % 5) as Float - if k % 2 == 1 { 1.0 } else { 0.0 }).collect();
            let out_n = match cfgs.last().unwrap() {
                LayerCfg::Dense { out, .. } => *out,
                _ => 1,
            };
            let rows = if input.len() == 1 { 1 } else { input[0] };
            let tv: Vec<Float> = (0..rows * out_n).map(|k| 0.25 + 0.125 * (k % 4) as Float).collect();
            let run = |through_model: bool| -> (bool, Option<Vec<Float>>, Vec<Option<Vec<Float>>>) {
                let store = ActStore::new(cfgs);
                let mut layers = build_layers(cfgs, &store, 5 + var);
                if *frozen {
                    for ly in layers.iter_mut() {
                        for p in ly.parameters() {
                            p.stop_tracking();
                        }
                    }
                }
                let x = arr(input, &xv.iter().map(|v| *v as f64).collect::<Vec<f64>>());
                let x = if *x_tracked { x.tracked() } else { x };
                let t = Array::from((vec![rows, out_n], tv.clone()));
                let cost = CostK::Mse.make();
                let out_flag;
                if through_model {
                    let gd = corgi::optimizer::gd::GradientDescent::new(0.5);
                    let refs: Vec<&mut dyn corgi::layer::Layer> = layers.iter_mut().map(|b| &mut **b as &mut dyn corgi::layer::Layer).collect();
                    let mut model = corgi::model::Model::new(refs, &gd, &cost);
                    let out = model.forward(x.clone());
                    out_flag = is_tracked(&out);
                    if out_flag {
                        let _ = model.backward(t);
                    }
                } else {
                    let mut h = x.clone();
                    for ly in layers.iter() {
                        h = ly.forward(h);
                    }
                    out_flag = is_tracked(&h);
                    if out_flag {
                        let e = cost(&h, &t);
                        e.backward(None);
                    }
                }
                let gx = x.gradient().as_ref().map(|g| g.values().to_vec());
                let gp: Vec<Option<Vec<Float>>> = layers.iter_mut().flat_map(|ly| ly.parameters().into_iter().map(|p| p.gradient().as_ref().map(|g| g.values().to_vec())).collect::<Vec<_>>()).collect();
                (out_flag, gx, gp)
            };
            let (mf, mgx, mgp) = run(true);
            let (hf, hgx, hgp) = run(false);
            let expect_flag = *x_tracked || !*frozen;
            if mf != expect_flag {
                msgs.push(format!("the model's output is tracked = {}, but input tracked = {} and parameters tracked = {}", mf, x_tracked, !*frozen));
            }
            if hf != expect_flag {
                msgs.push(format!("the layers' output is tracked = {}, but input tracked = {} and parameters tracked = {}", hf, x_tracked, !*frozen));
            }
            if expect_flag {
                if mgx.is_some() != *x_tracked {
                    msgs.push(format!("after Model::backward the input (tracked = {}) holds a gradient: {}", x_tracked, mgx.is_some()));
                }
                let same = |a: &Option<Vec<Float>>, b: &Option<Vec<Float>>| match (a, b) {
                    (None, None) => true,
                    (Some(a), Some(b)) => a.len() == b.len() && a.iter().zip(b).all(|(p, q)| p.to_bits() == q.to_bits()),
                    _ => false,
                };
                if !same(&mgx, &hgx) {
                    msgs.push(format!("the input's gradient through the model is {:?}, through the same layers applied by hand {:?}", mgx, hgx));
                }
                for (k, (a, b)) in mgp.iter().zip(&hgp).enumerate() {
                    if !same(a, b) {
                        msgs.push(format!("parameter {}'s gradient through the model is {:?}, by hand {:?}", k, a, b));
                    }
                    if a.is_some() == *frozen {
                        msgs.push(format!("parameter {} (frozen = {}) holds a gradient: {}", k, frozen, a.is_some()));
                    }
                }
            }
            msgs
        });
        match r {
            Err(m) => l.violation("model-input", case(), format!("panicked: {}", m)),
            Ok(msgs) => {
                l.outcome(digest_str(&format!("{}{}", case(), msgs.len())));
                if !msgs.is_empty() {
                    l.violation("model-input", case(), msgs.join("; "));
                }
            }
        }
        l.sample(&case);
    })
}

pub fn explore(opts: &Opts) -> Explored {
    let mut local = explore_iff(opts);
    local.merge(explore_model_inputs(opts));
    let _ = (Program { leaves: vec![], nodes: vec![], retrack: vec![], frozen: Vec::new(), dropped: Vec::new() }, RErr::Refuse);
    let (ml, stats) = crate::checks::c10::run_all(opts, machines(opts));
    local.merge(ml);
    Explored {
        local,
        bounds: json!({"iff_rule_operation_instances": iff_ops().len(), "operand_masks": "all 2^arity", "machines": stats,
                       "flag_actions": ["tracked()", "untracked()", "start_tracking()", "stop_tracking()"]}),
        rule: "E3 part: explicit-state BFS over histories of build / flag (on handles, leaves and clones) / clone / backward / fetch / adopt executed on the real library; after every step every handle's tracking flag, gradient presence and gradient value equal the reference's tracking semantics (edges carry gradients iff the operand handle was tracked when used; nothing flows below an untracked intermediate; a pass leaves flags unchanged; a flag set on a clone never changes the original; stored gradients are untracked and independent arrays). E1 part: every operation instance x every tracked/untracked assignment of its operands: result flag iff some operand tracked, operand flags untouched by the operation and by a pass, gradients exactly on tracked operands, gradients untracked and graph-free, untracked operands not retained".into(),
        exhaustive: true,
        assumptions: vec!["reshape, sum(0) and the identity user operation (whose closure returns a clone) share storage by design and are exempt from the ownership probe only".into()],
    }
}
