//! C09 - tracking decides exactly where gradients are computed and stored (E1 part + E3 part).

use crate::common::*;
use crate::ops::*;
use crate::prog::*;
use crate::refmodel::*;
use crate::shapes::*;
use crate::Explored;
use corgi::array::Array;
use corgi::numbers::Float;
use serde_json::json;

/// the operation instances of the iff-rule sweep: (op, operand dims)
pub fn iff_ops() -> Vec<(OpK, Vec<Vec<usize>>)> {
    let v2 = vec![2usize];
    let m23 = vec![2usize, 3];
    let v3 = vec![3usize];
    let mut out: Vec<(OpK, Vec<Vec<usize>>)> = Vec::new();
    for op in [OpK::Add, OpK::Sub, OpK::Mul, OpK::Div, OpK::Axpy(-2.0), OpK::UMul, OpK::UAdd] {
        out.push((op.clone(), vec![v2.clone(), v2.clone()]));
    }
    for op in [OpK::Add, OpK::Mul, OpK::Div] {
        out.push((op.clone(), vec![m23.clone(), v3.clone()]));
    }
    for op in [
        OpK::Neg,
        OpK::Scale(3.0),
        OpK::Powf(2.0),
        OpK::Powf(0.5),
        OpK::Ln,
        OpK::Exp,
        OpK::Recip,
        OpK::Relu,
        OpK::Sigmoid,
        OpK::Softmax,
        OpK::Sum(1),
        OpK::Sum(2),
        OpK::Reshape(vec![3, 2]),
        OpK::UScale(2.0),
    ] {
        out.push((op, vec![m23.clone()]));
    }
    for &ta in &[false, true] {
        for &tb in &[false, true] {
            let a = if ta { vec![3, 2] } else { vec![2, 3] };
            let b = if tb { vec![2, 3] } else { vec![3, 2] };
            out.push((OpK::Matmul { ta, tb, bias: false }, vec![a.clone(), b.clone()]));
            out.push((OpK::Matmul { ta, tb, bias: true }, vec![a.clone(), b.clone(), vec![2]]));
            out.push((OpK::Matmul { ta, tb, bias: true }, vec![a.clone(), b.clone(), vec![2, 2]]));
        }
    }
    out.push((OpK::Matmul { ta: false, tb: false, bias: false }, vec![vec![3], vec![3]]));
    out.push((OpK::Matmul { ta: false, tb: true, bias: true }, vec![vec![2, 2, 3], vec![2, 3], vec![2]]));
    out.push((OpK::Conv { sr: 1, sc: 1 }, vec![vec![1, 3, 3], vec![2, 1, 2, 2]]));
    out.push((OpK::Conv { sr: 2, sc: 1 }, vec![vec![2, 2, 3, 3], vec![1, 2, 2, 2]]));
    out
}

/// read a handle's tracking flag through the public API and restore it
pub fn is_tracked(a: &Array) -> bool {
    let t = a.stop_tracking();
    if t {
        a.start_tracking();
    }
    t
}

fn explore_iff(opts: &Opts) -> Local {
    let space = iff_ops();
    let var = opts.seed % 3;
    par(opts, space.len(), |i, l| {
        let (op, dims) = &space[i];
        let n = dims.len();
        l.states += 1;
        for m in 0u32..(1 << n) {
            let mask: Vec<bool> = (0..n).map(|k| m & (1 << k) != 0).collect();
            let case = || format!("iff {} operands={} mask={:?}", op.name(), dims.iter().map(|d| fmt_dims(d)).collect::<Vec<_>>().join(","), mask.iter().map(|b| *b as u8).collect::<Vec<_>>()).replace(' ', "");
            if !l.want(&case) {
                continue;
            }
            l.transitions += 1;
            l.validated += 1;
            let r = run_catch(|| {
                let mut msgs = Vec::new();
                let leaves: Vec<Array> = dims
                    .iter()
                    .enumerate()
                    .map(|(k, d)| {
                        let a = arr(d, &vals_small(numel(d), k, var));
                        if mask[k] {
                            a.tracked()
                        } else {
                            a
                        }
                    })
                    .collect();
                let result = {
                    let refs: Vec<&Array> = leaves.iter().collect();
                    apply_impl(op, &refs, 0)
                };
                let any = mask.iter().any(|b| *b);
                let flag = is_tracked(&result);
                if flag != any {
                    msgs.push(format!("result tracked = {} but {} operand(s) tracked", flag, mask.iter().filter(|b| **b).count()));
                }
                // flags of the operands are untouched by the operation
                for (k, a) in leaves.iter().enumerate() {
                    if is_tracked(a) != mask[k] {
                        msgs.push(format!("operand {} flag changed by the operation", k));
                    }
                }
                // gradient flow: a pass from the result stores gradients exactly on the tracked operands
                result.backward(None);
                for (k, a) in leaves.iter().enumerate() {
                    let has = a.gradient().is_some();
                    if has != mask[k] {
                        msgs.push(format!("operand {} (tracked={}) gradient present = {}", k, mask[k], has));
                    }
                    if is_tracked(a) != mask[k] {
                        msgs.push(format!("operand {} flag changed by the pass", k));
                    }
                    if let Some(g) = a.gradient().as_ref() {
                        if is_tracked(g) {
                            msgs.push(format!("gradient of operand {} is tracked", k));
                        }
                        // an operation on a gradient and an untracked array is untracked: no graph on gradients
                        let z = g * g;
                        if is_tracked(&z) {
                            msgs.push(format!("an operation on the gradient of operand {} is tracked", k));
                        }
                    }
                }
                if !result.gradient().is_some() {
                    msgs.push("the array the pass was started on stores no gradient".into());
                }
                // ownership: with no tracked operand the result keeps no reference to its operands
                if !any && !matches!(op, OpK::Reshape(_) | OpK::Sum(0)) {
                    for (k, a) in leaves.into_iter().enumerate() {
                        let ok = run_catch(move || Vec::<Float>::from(a).len());
                        if ok.is_err() {
                            msgs.push(format!("untracked operand {} is still referenced while the (untracked) result is alive", k));
                        }
                    }
                }
                let keep_alive = result.values().len();
                (msgs, keep_alive)
            });
            match r {
                Err(msg) => l.violation("iff", case(), format!("panicked: {}", msg)),
                Ok((msgs, _)) => {
                    l.outcome(digest_str(&format!("{}{:?}{}", op.name(), mask, msgs.len())));
                    if !msgs.is_empty() {
                        l.violation("iff", case(), msgs.join("; "));
                    }
                }
            }
            l.sample(&case);
        }
    })
}

pub fn explore(opts: &Opts) -> Explored {
    let local = explore_iff(opts);
    let _ = (Program { leaves: vec![], nodes: vec![], retrack: Vec::new() }, RErr::Refuse);
    Explored {
        local,
        bounds: json!({"iff_rule_operation_instances": iff_ops().len(), "operand_masks": "all 2^arity"}),
        rule: "E1 part: every operation instance x every tracked/untracked assignment of its operands: result flag iff some operand tracked, operand flags untouched by the operation and by a pass, gradients exactly on tracked operands, gradients untracked and graph-free, untracked operands not retained".into(),
        exhaustive: true,
        assumptions: vec!["reshape and sum(0) share storage by design and are exempt from the ownership probe only".into()],
    }
}
