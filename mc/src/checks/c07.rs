//! C07 - reductions, reshape and point-wise functions compute their definitions (engine E1).

use crate::common::*;
use crate::ops::*;
use crate::refmodel::*;
use crate::shapes::*;
use crate::Explored;
use corgi::numbers::Float;
use serde_json::json;

fn vals_small_signed(n: usize, salt: usize, var: u64) -> Vec<f64> {
    let mut v = vals_small(n, salt, var);
    for (i, x) in v.iter_mut().enumerate() {
        if i % 2 == 1 {
            *x = -*x;
        }
    }
    if n >= 3 {
        v[2] = 0.0;
    }
    // magnitudes far below any plausible epsilon: thresholds other than exactly 0 would show
    if n >= 5 {
        v[4] = 1.0e-20;
    }
    if n >= 6 {
        v[5] = -1.0e-20;
    }
    v
}

pub fn explore(opts: &Opts) -> Explored {
    let (rank, dim) = match opts.tier {
        Tier::Quick => (4, 3),
        Tier::Thorough => (4, 4),
    };
    let mut sh = shapes(rank, dim);
    sh.extend(long_shapes());
    let variants: Vec<u64> = vec![opts.seed % 3, (opts.seed + 1) % 3];
    // (op, valuation kind): 0 positive ints, 1 signed ints with a zero, 2 small positive, 3 small signed, 4 saturating
    let maps: Vec<(OpK, u8)> = vec![
        (OpK::Neg, 1),
        (OpK::Scale(-2.0), 1),
        (OpK::Scale(0.5), 1),
        (OpK::Scale(3.0), 1),
        (OpK::Scale(0.0), 1),
        (OpK::Powf(2.0), 1),
        (OpK::Powf(3.0), 1),
        (OpK::Powf(1.0), 1),
        (OpK::Powf(0.0), 0),
        (OpK::Powf(0.5), 2),
        (OpK::Powf(-1.0), 2),
        (OpK::Powf(1.5), 2),
        (OpK::Ln, 2),
        (OpK::Ln, 0),
        (OpK::Ln, 6),
        (OpK::Powf(0.5), 6),
        (OpK::Scale(3.0), 6),
        (OpK::Exp, 3),
        (OpK::Recip, 3),
        (OpK::Recip, 0),
        (OpK::Relu, 1),
        (OpK::Relu, 3),
        (OpK::Sigmoid, 3),
        (OpK::Sigmoid, 4),
        (OpK::Relu, 4),
        (OpK::Neg, 4),
        (OpK::Softmax, 3),
        (OpK::Softmax, 2),
        (OpK::Softmax, 5),
    ];
    let local = par(opts, sh.len(), |i, l| {
        let d = &sh[i];
        let n = numel(d);
        l.states += 1;
        for &var in &variants {
            let mut cases: Vec<(OpK, u8)> = maps.clone();
            for k in 0..=d.len() {
                cases.push((OpK::Sum(k), 1));
                // positive values whose sums overflow: every order gives +inf, never NaN
                cases.push((OpK::Sum(k), 7));
            }
            for t in shapes_with_numel(n, 4) {
                cases.push((OpK::Reshape(t), 1));
            }
            // a different element count must be refused
            cases.push((OpK::Reshape(vec![n + 1]), 1));
            cases.push((OpK::Reshape(vec![2, n]), 1));
            if n > 1 {
                cases.push((OpK::Reshape(vec![n - 1]), 1));
                cases.push((OpK::Reshape(vec![1, n - 1]), 1));
            }
            for (op, kind) in &cases {
                let case = || format!("{} on {} valkind={} val={}", op.name(), fmt_dims(d), kind, var);
                if !l.want(&case) {
                    continue;
                }
                let v = match kind {
                    0 => vals(n, 0, var),
                    1 => vals_signed(n, 0, var),
                    2 => vals_small(n, 0, var),
                    3 => vals_small_signed(n, 0, var),
                    6 => {
                        // small and tiny positive magnitudes
                        let tiny = if IS_F32 { [1.0e-3, 1.0e-7, 0.25, 1.0e-12, 1.0e-20, 3.0e-30, 0.9990234375, 1.0e-36] } else { [1.0e-3, 1.0e-7, 0.25, 1.0e-12, 1.0e-17, 3.0e-100, 0.9990234375, 1.0e-300] };
                        (0..n).map(|i| tiny[(i + var as usize) % tiny.len()]).collect()
                    }
                    7 => vals_overflow(n, 0, 1),
                    5 => {
                        // last-dimension rows at very different levels (each exponential still finite)
                        let last = *d.last().unwrap();
                        let (hi, lo) = if IS_F32 { (80.0, -30.0) } else { (700.0, -100.0) };
                        (0..n).map(|i| (if (i / last) % 2 == 0 { hi } else { lo }) - ((i * 3 + var as usize) % 4) as f64).collect()
                    }
                    _ => {
                        // saturating magnitudes (still far inside the range of f32)
                        let sat = [-500.0, 30.0, -100.0, 89.0, 100.0, -30.0, 700.0, -89.0, 500.0, -700.0, 710.0, -710.0, 800.0, -800.0, 1.0e4, -1.0e4];
                        (0..n).map(|i| sat[(i + var as usize) % sat.len()]).collect()
                    }
                };
                // reciprocal needs non-zero inputs
                let v: Vec<f64> = if matches!(op, OpK::Recip) { v.iter().map(|x| if *x == 0.0 { 1.25 } else { *x }).collect() } else { v };
                let rt = T::from_f64(d.clone(), &v);
                let expect = if *kind == 7 { apply_ref_raw(op, &[&rt]) } else { apply_ref(op, &[&rt]) };
                if let Err(RErr::Domain) | Err(RErr::Unspecified) = expect {
                    l.count("skipped_domain");
                    if std::env::var("VERIF_DEBUG_SKIPS").is_ok() {
                        eprintln!("SKIP {}", case());
                    }
                    continue;
                }
                let a = arr(d, &v);
                let got = run_catch(|| {
                    let r = apply_impl(op, &[&a], 0);
                    (r.dimensions().to_vec(), r.values().to_vec())
                });
                l.transitions += 1;
                l.validated += 1;
                let sub = match op {
                    OpK::Sum(_) => "sum",
                    OpK::Reshape(_) => "reshape",
                    OpK::Softmax => "softmax",
                    _ => "map",
                };
                match (&expect, &got) {
                    (Err(_), Err(_)) => {
                        l.count("refused_as_required");
                        l.outcome(1);
                    }
                    (Err(_), Ok((dd, _))) => l.violation(sub, case(), format!("must be refused, but returned dimensions {:?}", dd)),
                    (Ok(_), Err(msg)) => l.violation(sub, case(), format!("panicked: {}", msg)),
                    (Ok(r), Ok((dd, vv))) => {
                        l.outcome(digest_vals(dd, vv));
                        if dd != &r.dims {
                            l.violation(sub, case(), format!("dimensions {:?}, reference {:?}", dd, r.dims));
                        } else if let Err(e) = if *kind == 7 { cmp_slice_inf(vv, &r.x, Part::Value) } else { cmp_slice(vv, &r.x, Part::Value) } {
                            l.violation(sub, case(), e);
                        } else if matches!(op, OpK::Softmax) {
                            let last = *dd.last().unwrap();
                            for row in vv.chunks(last) {
                                let s: f64 = row.iter().map(|x| *x as f64).sum();
                                if row.iter().any(|x| !(*x >= 0.0)) || (s - 1.0).abs() > tau() * 10.0 {
                                    l.violation(sub, case(), format!("softmax row {:?} is not a distribution (sum {})", row, s));
                                    break;
                                }
                            }
                        }
                    }
                }
                l.sample(&case);
            }
            // sum_all of positive values whose total overflows
            {
                let case = || format!("sum_all on {} overflowing val={}", fmt_dims(d), var);
                if l.want(&case) {
                    let v = vals_overflow(n, 0, 1);
                    let a = arr(d, &v);
                    let r = T::from_f64(d.clone(), &v).sum(d.len()).unwrap();
                    let got = run_catch(|| a.sum_all());
                    l.transitions += 1;
                    l.validated += 1;
                    match got {
                        Err(msg) => l.violation("sum_all", case(), format!("panicked: {}", msg)),
                        Ok(s) => {
                            l.outcome(digest_vals(&[1], &[s as Float]));
                            if let Err(e) = cmp_slice_inf(&[s], &r.x, Part::Value) {
                                l.violation("sum_all", case(), e);
                            }
                        }
                    }
                }
            }
            // sum_all
            {
                let case = || format!("sum_all on {} val={}", fmt_dims(d), var);
                if l.want(&case) {
                    let v = vals_signed(n, 0, var);
                    let a = arr(d, &v);
                    let r = T::from_f64(d.clone(), &v).sum(d.len()).unwrap();
                    let got = run_catch(|| a.sum_all());
                    l.transitions += 1;
                    l.validated += 1;
                    match got {
                        Err(msg) => l.violation("sum_all", case(), format!("panicked: {}", msg)),
                        Ok(s) => {
                            l.outcome(digest_vals(&[1], &[s as Float]));
                            if let Err(e) = cmp_slice(&[s], &r.x, Part::Value) {
                                l.violation("sum_all", case(), e);
                            }
                        }
                    }
                }
            }
        }
    });
    // powf for scalar parameters far outside the small ones above: whole exponents beyond the
    // range of 32-bit integers, fractional and negative ones, on bases next to 1 (finite powers) and
    // away from it (powers that overflow or vanish). The oracle is the scalar function of the same
    // float type.
    let mut local = local;
    if !IS_F32 {
        let l = &mut local;
        let bases: Vec<Float> = vec![1.0 + (2.0 as Float).powi(-32), 1.0 - (2.0 as Float).powi(-33), 1.000000001, 0.999999999, 2.0, 0.5, 1.0];
        let exps: Vec<Float> = vec![3.0e9, 4294967296.0, -4.0e9, 2147483648.0, -2147483649.0, 1.0e10, 9007199254740992.0, 2147483647.0, 0.1, -0.3, 1.0 / 3.0, 7.0, -5.0, 10.0];
        for e in &exps {
            let case = || format!("powf({:e}) on bases next to and away from 1", e);
            if !l.want(&case) {
                continue;
            }
            l.states += 1;
            for dims in [vec![bases.len()], vec![1, bases.len()], vec![bases.len(), 1]] {
                l.transitions += 1;
                l.validated += 1;
                let a = corgi::array::Array::from((dims.clone(), bases.clone()));
                let e2 = *e;
                match run_catch(move || {
                    let r = a.powf(e2);
                    (r.dimensions().to_vec(), r.values().to_vec())
                }) {
                    Err(m) => l.violation("map", case(), format!("panicked: {}", m)),
                    Ok((dd, vv)) => {
                        l.outcome(digest_vals(&dd, &vv));
                        if dd != dims {
                            l.violation("map", case(), format!("dimensions {:?}, expected {:?}", dd, dims));
                            continue;
                        }
                        for (b, got) in bases.iter().zip(&vv) {
                            let want = b.powf(*e);
                            let ok = if want.is_infinite() || want == 0.0 { *got == want } else { (*got - want).abs() <= 1.0e-12 * want.abs() };
                            if !ok {
                                l.violation("map", case(), format!("powf of {:?}: got {:?}, the scalar function gives {:?}", b, got, want));
                                break;
                            }
                        }
                    }
                }
            }
        }
    }
    Explored {
        local,
        bounds: json!({"max_rank": rank, "max_dim": dim, "shapes": sh.len(), "sum_k": "0..rank", "reshape_targets": "every shape of rank<=4 with the same element count, plus four targets with a different count (must be refused)",
                       "maps": maps.iter().map(|(o, k)| format!("{}/{}", o.name(), k)).collect::<Vec<_>>(), "valuations": variants}),
        rule: "every shape x every k of sum, every reshape target, every point-wise map with an in-domain valuation (negatives and zero where in domain); one call compared with the definition".into(),
        exhaustive: true,
        assumptions: vec!["values are fixed valuations inside each function's domain".into()],
    }
}
