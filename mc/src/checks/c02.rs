//! C02 - each operation's derivative equals its mathematical definition (engine E1).
//! Single-operation programs: every op x parameterisation x operand shapes x tracked subsets x seeds.

use crate::common::*;
use crate::ops::*;
use crate::prog::*;
use crate::progcheck::*;
use crate::refmodel::*;
use crate::shapes::*;
use crate::spaces::*;
use crate::Explored;
use serde_json::json;

pub struct Single {
    pub family: &'static str,
    pub prog: Program,
}

fn leaf(dims: &[usize], salt: usize, kind: u8, var: u64) -> Leaf {
    let n = numel(dims);
    let vals = match kind {
        0 => vals(n, salt, var),
        1 => vals_signed(n, salt, var),
        3 => {
            // small and tiny positive magnitudes (derivatives such as 1/x are huge but finite there): an
            // absolute quantity mixed into a relative one - x + epsilon - shows only here
            let tiny = if IS_F32 { [1.0e-3, 1.0e-7, 0.25, 1.0e-12, 1.0e-17, 3.0e-19, 0.9990234375, 1.0e-18] } else { [1.0e-3, 1.0e-7, 0.25, 1.0e-12, 1.0e-17, 3.0e-100, 0.9990234375, 1.0e-140] };
            (0..n).map(|i| tiny[(i + salt + var as usize) % tiny.len()]).collect()
        }
        4 => {
            // last-dimension rows at very different levels (every exponential still finite): the sums of
            // exponentials reach 1e300 (f32: 5e34), whose squares are not representable
            let last = *dims.last().unwrap();
            let (hi, lo) = if IS_F32 { (80.0, -30.0) } else { (700.0, -100.0) };
            (0..n).map(|i| (if (i / last) % 2 == 0 { hi } else { lo }) - ((i * 3 + var as usize) % 4) as f64).collect()
        }
        5 => {
            // huge magnitudes whose squares overflow while quotients and their derivatives do not
            let scale = if IS_F32 { if salt % 2 == 0 { 1.0e25 } else { 1.0e20 } } else if salt % 2 == 0 { 1.0e170 } else { 1.0e160 };
            vals(n, salt, var).iter().map(|v| v * scale).collect()
        }
        _ => vals_small(n, salt, var),
    };
    Leaf { dims: dims.to_vec(), vals }
}

pub fn single_op_space(tier: Tier, var: u64) -> Vec<Single> {
    let mut out = Vec::new();
    let sh = union(shapes(4, 2), shapes(3, 3));
    // unary maps
    let mut unary: Vec<(OpK, u8)> = vec![
        (OpK::Neg, 1),
        (OpK::Scale(-2.0), 1),
        (OpK::Scale(0.5), 1),
        (OpK::Scale(3.0), 1),
        (OpK::Powf(-1.0), 2),
        (OpK::Powf(0.5), 2),
        (OpK::Powf(1.0), 1),
        (OpK::Powf(2.0), 1),
        (OpK::Powf(3.0), 1),
        (OpK::Ln, 2),
        (OpK::Exp, 2),
        (OpK::Recip, 2),
        (OpK::Relu, 1),
        (OpK::Sigmoid, 2),
        (OpK::Softmax, 2),
        (OpK::Softmax, 4),
        (OpK::Sigmoid, 4),
        (OpK::Ln, 3),
        (OpK::Powf(0.5), 3),
        (OpK::Scale(3.0), 3),
        (OpK::Sigmoid, 3),
    ];
    if tier == Tier::Thorough {
        unary.push((OpK::Powf(1.5), 2));
        unary.push((OpK::Powf(-2.0), 2));
        unary.push((OpK::Powf(4.0), 1));
        unary.push((OpK::Scale(-0.25), 1));
    }
    for d in &sh {
        for (op, kind) in &unary {
            out.push(Single {
                family: "unary",
                prog: Program { leaves: vec![leaf(d, 0, *kind, var)], nodes: vec![PNode { op: op.clone(), args: vec![0] }], retrack: Vec::new(), frozen: Vec::new(), dropped: Vec::new() },
            });
        }
        for k in 1..=d.len() {
            out.push(Single {
                family: "sum",
                prog: Program { leaves: vec![leaf(d, 0, 1, var)], nodes: vec![PNode { op: OpK::Sum(k), args: vec![0] }], retrack: Vec::new(), frozen: Vec::new(), dropped: Vec::new() },
            });
        }
        for target in shapes_with_numel(numel(d), 4) {
            out.push(Single {
                family: "reshape",
                prog: Program { leaves: vec![leaf(d, 0, 1, var)], nodes: vec![PNode { op: OpK::Reshape(target), args: vec![0] }], retrack: Vec::new(), frozen: Vec::new(), dropped: Vec::new() },
            });
        }
    }
    // binary element-wise: all admissible pairs
    let bin = [OpK::Add, OpK::Sub, OpK::Mul, OpK::Div, OpK::Axpy(-2.0)];
    for a in &sh {
        for b in &sh {
            if broadcast_dims(a, b).is_none() {
                continue;
            }
            for op in &bin {
                out.push(Single {
                    family: "binary",
                    prog: Program {
                        leaves: vec![leaf(a, 0, 0, var), leaf(b, 1, 0, var)],
                        nodes: vec![PNode { op: op.clone(), args: vec![0, 1] }],
                        retrack: Vec::new(),
 frozen: Vec::new(),
 dropped: Vec::new(),
                    },
                });
            }
        }
    }
    // quotients of huge operands: the square of the denominator overflows, the derivative does not
    for a in &sh {
        for b in &sh {
            if broadcast_dims(a, b).is_none() || numel(a) > 8 || numel(b) > 8 {
                continue;
            }
            out.push(Single {
                family: "binary-huge",
                prog: Program { leaves: vec![leaf(a, 0, 5, var), leaf(b, 1, 5, var)], nodes: vec![PNode { op: OpK::Div, args: vec![0, 1] }], retrack: Vec::new(), frozen: Vec::new(), dropped: Vec::new() },
            });
        }
    }
    // both operands are views of one buffer: an array and a reshape of it with different dimensions
    for d in union(shapes(3, 3), vec![vec![2, 1, 2, 2], vec![1, 2, 1, 3]]) {
        for d2 in shapes_with_numel(numel(&d), 4) {
            if d2 == d || broadcast_dims(&d, &d2).is_none() {
                continue;
            }
            for op in [OpK::Mul, OpK::Add, OpK::Sub, OpK::Div] {
                for swap in [false, true] {
                    out.push(Single {
                        family: "aliased-views",
                        prog: Program {
                            leaves: vec![leaf(&d, 0, 2, var)],
                            nodes: vec![
                                PNode { op: OpK::Reshape(d2.clone()), args: vec![0] },
                                PNode { op: op.clone(), args: if swap { vec![1, 0] } else { vec![0, 1] } },
                            ],
                            retrack: Vec::new(),
                            frozen: Vec::new(),
                            dropped: Vec::new(),
                        },
                    });
                }
            }
        }
    }
    // larger sizes, sparsely: long last dimensions, long inner dimensions
    for d in long_shapes() {
        for (op, kind) in &unary {
            out.push(Single {
                family: "unary-long",
                prog: Program { leaves: vec![leaf(&d, 0, *kind, var)], nodes: vec![PNode { op: op.clone(), args: vec![0] }], retrack: Vec::new(), frozen: Vec::new(), dropped: Vec::new() },
            });
        }
        for k in 1..=d.len() {
            out.push(Single {
                family: "sum-long",
                prog: Program { leaves: vec![leaf(&d, 0, 1, var)], nodes: vec![PNode { op: OpK::Sum(k), args: vec![0] }], retrack: Vec::new(), frozen: Vec::new(), dropped: Vec::new() },
            });
        }
        let last = vec![*d.last().unwrap()];
        for op in &bin {
            for (x, y) in [(d.clone(), last.clone()), (last.clone(), d.clone()), (d.clone(), d.clone())] {
                out.push(Single {
                    family: "binary-long",
                    prog: Program { leaves: vec![leaf(&x, 0, 0, var), leaf(&y, 1, 0, var)], nodes: vec![PNode { op: op.clone(), args: vec![0, 1] }], retrack: Vec::new(), frozen: Vec::new(), dropped: Vec::new() },
                });
            }
        }
    }
    for inner in [4usize, 5, 8, 9, 17] {
        for ta in [false, true] {
            for tb in [false, true] {
                let (rows, cols) = (2usize, 3usize);
                let am = if ta { vec![inner, rows] } else { vec![rows, inner] };
                let bm = if tb { vec![cols, inner] } else { vec![inner, cols] };
                out.push(Single {
                    family: "matmul-long",
                    prog: Program {
                        leaves: vec![leaf(&am, 0, 0, var), leaf(&[vec![2], bm.clone()].concat(), 1, 0, var), leaf(&[cols], 2, 0, var)],
                        nodes: vec![PNode { op: OpK::Matmul { ta, tb, bias: true }, args: vec![0, 1, 2] }],
                        retrack: Vec::new(),
 frozen: Vec::new(),
 dropped: Vec::new(),
                    },
                });
            }
        }
    }
    // matmul
    let leads: Vec<Vec<usize>> = match tier {
        Tier::Quick => vec![vec![], vec![1], vec![2], vec![2, 1], vec![2, 2]],
        Tier::Thorough => leading_patterns(),
    };
    let msize = if tier == Tier::Quick { 2 } else { 3 };
    for c in matmul_configs(msize, &leads, true) {
        let mut leaves = vec![leaf(&c.a, 0, 0, var), leaf(&c.b, 1, 0, var)];
        let mut args = vec![0, 1];
        if let Some(cd) = &c.c {
            leaves.push(leaf(cd, 2, 0, var));
            args.push(2);
        }
        out.push(Single {
            family: "matmul",
            prog: Program { leaves, nodes: vec![PNode { op: OpK::Matmul { ta: c.ta, tb: c.tb, bias: c.c.is_some() }, args }], retrack: Vec::new(), frozen: Vec::new(), dropped: Vec::new() },
        });
    }
    // conv
    let convs = match tier {
        Tier::Quick => conv_configs(3, 2, 2, &[1, 2], &[1, 2], &[vec![], vec![1], vec![2]]),
        Tier::Thorough => conv_configs(4, 3, 3, &[1, 2], &[1, 2], &[vec![], vec![1], vec![2], vec![2, 2]]),
    };
    for c in convs {
        out.push(Single {
            family: "conv",
            prog: Program {
                leaves: vec![leaf(&c.image, 0, 0, var), leaf(&c.filters, 1, 0, var)],
                nodes: vec![PNode { op: OpK::Conv { sr: c.sr, sc: c.sc }, args: vec![0, 1] }],
                retrack: Vec::new(),
 frozen: Vec::new(),
 dropped: Vec::new(),
            },
        });
    }
    out
}

pub fn explore(opts: &Opts) -> Explored {
    let var = opts.seed % 3;
    let mut space = single_op_space(opts.tier, var);
    // a second, degenerate valuation (all elements of an operand equal) for the families whose
    // generic valuation is the integer progression
    space.extend(single_op_space(opts.tier, 3).into_iter().filter(|s| matches!(s.family, "binary" | "matmul" | "conv" | "binary-long" | "matmul-long")));
    let thorough = opts.tier == Tier::Thorough;
    let local = par(opts, space.len(), |i, l| {
        let s = &space[i];
        let p = &s.prog;
        l.states += 1;
        let nl = p.nl();
        // shape admissibility and output size from the reference
        let base = match eval_ref(p, &vec![true; nl], None) {
            Ok(b) => b,
            Err(RErr::Refuse) => {
                l.count("skipped_inadmissible");
                return;
            }
            Err(_) => {
                l.count("skipped_domain_or_unspecified");
                return;
            }
        };
        let root = p.nv() - 1;
        let out_n = base[root].len();
        let mut seeds: Vec<Option<Vec<f64>>> = vec![None, Some(seed_vals(out_n, opts.seed))];
        if thorough {
            for e in 0..out_n {
                let mut b = vec![0.0; out_n];
                b[e] = 1.0;
                seeds.push(Some(b));
            }
        }
        for m in 1u32..(1 << nl) {
            let mask: Vec<bool> = (0..nl).map(|k| m & (1 << k) != 0).collect();
            // one pass per seed; and, where an operand is left untracked, the operation built once and
            // differentiated twice (what a pass does to its operands' flags must not change the next one)
            let mut plans: Vec<Vec<Pass>> = seeds.iter().map(|seed| vec![Pass { root, seed: seed.clone() }]).collect();
            if nl >= 2 && m != (1 << nl) - 1 {
                plans.push(vec![Pass { root, seed: None }, Pass { root, seed: seeds[1].clone() }]);
            }
            for passes in plans {
                let case = || {
                    format!(
                        "{} vals={:?} mask={:?} {}",
                        p.describe(),
                        p.leaves.iter().map(|l| l.vals.clone()).collect::<Vec<_>>(),
                        mask.iter().map(|b| *b as u8).collect::<Vec<_>>(),
                        describe_passes(&passes)
                    )
                    .replace(' ', "")
                };
                if !l.want(&case) {
                    continue;
                }
                let sub = format!("{}/{}", s.family, p.nodes[p.nodes.len() - 1].op.name());
                let cfg = CheckCfg { sub: &sub, intermediates: true, values: true };
                let v = check_program(p, &mask, &passes, &cfg, l, &case);
                if v == Verdict::Ok {
                    l.count(&format!("ok_{}", s.family));
                }
                l.sample(&case);
            }
        }
    });
    Explored {
        local,
        bounds: json!({"shapes": "S(4,2) u S(3,3)", "single_op_programs": space.len(),
                       "seeds": if thorough {"ones, generic, every basis vector of the result (full Jacobian)"} else {"ones, generic"},
                       "tracked_subsets": "every non-empty subset of the operands"}),
        rule: "every single-operation program (op x parameterisation x operand shapes) x every non-empty tracked subset x seeds; a state is one operation instance, a transition one build+backward on the real library compared with the forward-mode transpose-Jacobian of the reference".into(),
        exhaustive: true,
        assumptions: vec![
            "values are fixed generic valuations inside each operation's domain".into(),
            "ReLU's derivative at exactly 0 is not compared".into(),
        ],
    }
}
