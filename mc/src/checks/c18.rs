//! C18 - dropping results releases everything they held (E3 ownership probe + training machine).

use crate::checks::c10::{base_cfg, run_all};
use crate::common::*;
use crate::machine::*;
use crate::nn::{build_layers, read_params, ref_forward, ActStore, CostK, LayerCfg};
use crate::nn::Act as NAct;
use crate::ops::*;
use crate::Explored;
use corgi::array::Array;
use corgi::model::Model;
use corgi::numbers::Float;
use corgi::optimizer::gd::GradientDescent;
use serde_json::json;

fn leaves(var: u64) -> Vec<LeafSpec> {
    vec![
        LeafSpec { dims: vec![2, 3], vals: vec![2.0, 3.0 + var as f64, 1.0, 5.0, 0.5, 4.0], tracked: true },
        LeafSpec { dims: vec![2, 3], vals: vec![1.0, 2.0 + var as f64, 2.5, 1.5, 3.0, 0.25], tracked: true },
        LeafSpec { dims: vec![3], vals: vec![3.0, 2.0, 1.0], tracked: false },
    ]
}

pub fn machines(opts: &Opts) -> Vec<MCfg> {
    let var = opts.seed % 3;
    let ops_a = vec![OpK::Add, OpK::Mul, OpK::Ln, OpK::Reshape(vec![6]), OpK::Sum(1)];
    let ops_b = vec![OpK::Div, OpK::Exp, OpK::Sigmoid, OpK::Relu, OpK::Powf(2.0), OpK::Softmax, OpK::Recip, OpK::Matmul { ta: false, tb: true, bias: false }, OpK::UMul];
    let mk = |name: &str, b: Bounds, ops: Vec<OpK>, nslots: usize| {
        let mut m = base_cfg(name, leaves(var), ops, nslots);
        m.bounds = b;
        m.check_ownership = true;
        m.check_ref = true;
        m.rebind = true;
        m.seeds = vec![0];
        m.clear_vias = vec![0];
        m.update_slots = vec![0, 1];
        m
    };
    let mut out = Vec::new();
    // convolution of tracked and untracked images, and a user op whose derivative uses itself
    {
        let img = vec![
            LeafSpec { dims: vec![1, 3, 3], vals: (0..9).map(|i| 0.5 + 0.25 * ((i * 2 + var as usize) % 7) as f64).collect(), tracked: false },
            LeafSpec { dims: vec![1, 1, 2, 2], vals: vec![1.0, -2.0, 0.5, 1.5], tracked: true },
            LeafSpec { dims: vec![1, 3, 3], vals: (0..9).map(|i| 1.0 + 0.5 * ((i * 3) % 5) as f64).collect(), tracked: true },
        ];
        let mut m = base_cfg("conv/N2P1D2", img, vec![OpK::Conv { sr: 1, sc: 1 }, OpK::Mul, OpK::Relu], 5);
        m.bounds = Bounds { builds: 2, passes: 1, drops: 2, clears: 1, depth: if opts.tier == Tier::Quick { 5 } else { 6 }, ..Bounds::default() };
        m.check_ownership = true;
        m.check_ref = true;
        m.seeds = vec![0];
        m.clear_vias = vec![0];
        out.push(m);
        let mut m = base_cfg("pool/N2P1D2-unmerged", leaves(var), vec![OpK::Mul, OpK::Ln, OpK::Reshape(vec![6])], 5);
        m.bounds = Bounds { builds: 2, passes: 1, drops: 2, clears: 1, depth: 5, ..Bounds::default() };
        m.check_ownership = true;
        m.check_ref = true;
        m.seeds = vec![0];
        m.clear_vias = vec![0];
        m.merged = false;
        out.push(m);
        let mut m = base_cfg("nested-user-op/N2P1D2", leaves(var), vec![OpK::Mul, OpK::UMulN], 5);
        m.bounds = Bounds { builds: 2, passes: 1, drops: 2, depth: 5, ..Bounds::default() };
        m.check_ownership = true;
        m.check_ref = true;
        m.seeds = vec![0];
        out.push(m);
    }
    // detached intermediates: a result is un-tracked (untracked() / stop_tracking()) or re-tracked
    // between its construction and its use, while a leaf underneath it also reaches the root along a
    // tracked path; after the pass and the drops the leaf must be sole owner with no counter / pending
    // value left (seeded change C18-r9m1: the counting phase descends through a detached result)
    {
        let mut m = base_cfg("detached/N2F1P2D2", leaves(var), vec![OpK::Mul, OpK::Reshape(vec![6])], 5);
        m.bounds = Bounds { builds: 2, flags: 1, passes: if opts.tier == Tier::Quick { 1 } else { 2 }, drops: 2, depth: if opts.tier == Tier::Quick { 6 } else { 7 }, ..Bounds::default() };
        m.flag_kinds = vec![1, 2, 3];
        m.check_ownership = true;
        m.check_ref = true;
        m.seeds = vec![0];
        out.push(m);
    }
    match opts.tier {
        Tier::Quick => {
            out.push(mk("pool/N2P2D2", Bounds { builds: 2, passes: 2, clears: 1, drops: 2, clones: 1, fetches: 1, updates: 1, depth: 5, ..Bounds::default() }, vec![OpK::Mul, OpK::Ln, OpK::Reshape(vec![6])], 5));
            out.push(mk("ops/N2P1D2", Bounds { builds: 2, passes: 1, drops: 2, depth: 5, ..Bounds::default() }, ops_b.clone(), 5));
        }
        Tier::Thorough => {
            out.push(mk("pool/N2P2D2", Bounds { builds: 2, passes: 2, clears: 1, drops: 2, clones: 1, fetches: 1, updates: 1, depth: 6, ..Bounds::default() }, ops_a.clone(), 5));
            out.push(mk("ops/N2P2D2", Bounds { builds: 2, passes: 2, drops: 2, depth: 6, ..Bounds::default() }, ops_b.clone(), 5));
            out.push(mk("ops/N3P1D3", Bounds { builds: 3, passes: 1, drops: 3, depth: 6, ..Bounds::default() }, ops_b.clone(), 6));
            out.push(mk("deep/N3P1D3", Bounds { builds: 3, passes: 1, drops: 3, depth: 7, ..Bounds::default() }, vec![OpK::Mul, OpK::Ln, OpK::Reshape(vec![6])], 6));
        }
    }
    out
}

/// Training machine: every sequence of forward / backward / update steps up to a length; after a
/// later forward the previous input and target must be sole owners again, after backward the target.
fn training(opts: &Opts, total: &mut Local) -> serde_json::Value {
    #[derive(Clone, Copy, Debug, PartialEq)]
    enum Step {
        Forward,
        Backward,
        Update,
    }
    let max_len = if opts.tier == Tier::Quick { 5 } else { 7 };
    let stacks: Vec<(Vec<LayerCfg>, Vec<usize>, CostK)> = vec![
        (vec![LayerCfg::Dense { inp: 2, out: 3, act: NAct::Relu }, LayerCfg::Dense { inp: 3, out: 2, act: NAct::Softmax }], vec![2, 2], CostK::CrossEntropy),
        (vec![LayerCfg::Dense { inp: 2, out: 2, act: NAct::Sigmoid }], vec![1, 2], CostK::Mse),
        (vec![LayerCfg::Conv { count: 2, depth: 1, fr: 2, fc: 2, sr: 1, sc: 1, act: NAct::Relu }], vec![1, 3, 3], CostK::Mse),
    ];
    // all step sequences in which backward only follows a forward somewhere before it
    let mut seqs: Vec<Vec<Step>> = vec![vec![]];
    let mut all: Vec<Vec<Step>> = Vec::new();
    for _ in 0..max_len {
        let mut next = Vec::new();
        for s in &seqs {
            for st in [Step::Forward, Step::Backward, Step::Update] {
                if st == Step::Backward && !s.contains(&Step::Forward) {
                    continue;
                }
                if st == Step::Update && !s.contains(&Step::Backward) {
                    continue;
                }
                let mut t = s.clone();
                t.push(st);
                next.push(t);
            }
        }
        all.extend(next.iter().cloned());
        seqs = next;
    }
    let items: Vec<(usize, Vec<Step>)> = (0..stacks.len()).flat_map(|k| all.iter().map(move |s| (k, s.clone()))).collect();
    let local = par(opts, items.len(), |i, l| {
        let (k, seq) = &items[i];
        let (cfgs, input, cost) = &stacks[*k];
        let case = || {
            format!(
                "training [{}] {} steps={}",
                cfgs.iter().map(|c| c.describe()).collect::<Vec<_>>().join(","),
                cost.name(),
                seq.iter().map(|s| match s { Step::Forward => "F", Step::Backward => "B", Step::Update => "U" }).collect::<String>()
            )
        };
        if !l.want(&case) {
            return;
        }
        l.states += 1;
        l.transitions += 1;
        l.validated += 1;
        let out_dims: Vec<usize> = {
            // output dimensions from the reference
            let store = ActStore::new(cfgs);
            let mut layers = build_layers(cfgs, &store, 3);
            let params = read_params(&mut layers);
            let x = crate::refmodel::T::from_f64(input.clone(), &vec![0.5; crate::refmodel::numel(input)]);
            match ref_forward(cfgs, &params, &x) {
                Ok(t) => t.dims,
                Err(_) => return,
            }
        };
        let res = run_catch(|| {
            let store = ActStore::new(cfgs);
            let mut layers = build_layers(cfgs, &store, 3);
            let gd = GradientDescent::new(0.25);
            let costf = cost.make();
            let mut msgs: Vec<String> = Vec::new();
            let mut prev_input: Option<Array> = None;
            {
            let refs: Vec<&mut dyn corgi::layer::Layer> = layers.iter_mut().map(|b| &mut **b as &mut dyn corgi::layer::Layer).collect();
            let mut model = Model::new(refs, &gd, &costf);
            let mut last_target: Option<Array> = None;
            let mut n = 0usize;
            for (si, st) in seq.iter().enumerate() {
                match st {
                    Step::Forward => {
                        n += 1;
                        let xv: Vec<Float> = (0..crate::refmodel::numel(input)).map(|j| (0.25 * ((j + n) % 5) as f64 + 0.25) as Float).collect();
                        let x = Array::from((input.clone(), xv));
                        let keep = x.clone();
                        let _ = model.forward(x);
                        // the model has moved on: the previous iteration's input is released
                        if let Some(p) = prev_input.take() {
                            if run_catch(move || Vec::<Float>::from(p).len()).is_err() {
                                msgs.push(format!("after step {} (forward): the previous input is still referenced", si));
                            }
                        }
                        if let Some(t) = last_target.take() {
                            if run_catch(move || Vec::<Float>::from(t).len()).is_err() {
                                msgs.push(format!("after step {} (forward): an earlier target is still referenced", si));
                            }
                        }
                        prev_input = Some(keep);
                    }
                    Step::Backward => {
                        let tv: Vec<Float> = (0..crate::refmodel::numel(&out_dims)).map(|j| (0.125 * ((j + n) % 4) as f64 + 0.125) as Float).collect();
                        let t = Array::from((out_dims.clone(), tv));
                        let keep = t.clone();
                        let _ = model.backward(t);
                        // once backward has returned, the cost graph is gone: the target is released
                        if run_catch(move || Vec::<Float>::from(keep).len()).is_err() {
                            msgs.push(format!("after step {} (backward): the target is still referenced", si));
                        }
                        last_target = None;
                    }
                    Step::Update => model.update(),
                }
            }
            }
            // the model is gone, the program kept the layers: they hold their parameters and nothing else
            if let Some(p) = prev_input.take() {
                if run_catch(move || Vec::<Float>::from(p).len()).is_err() {
                    msgs.push("after the model was dropped (layers kept): the last input is still referenced".to_string());
                }
            }
            // a layer applied directly, its result dropped
            for (li, ly) in layers.iter().enumerate().take(1) {
                let xv: Vec<Float> = (0..crate::refmodel::numel(input)).map(|j| (0.25 * (j % 5) as f64 + 0.5) as Float).collect();
                let x = Array::from((input.clone(), xv));
                let keep = x.clone();
                let y = ly.forward(x);
                drop(y);
                if run_catch(move || Vec::<Float>::from(keep).len()).is_err() {
                    msgs.push(format!("layer {} applied directly, result dropped: the input is still referenced", li));
                }
            }
            msgs
        });
        match res {
            Err(m) => l.violation("training", case(), format!("panicked: {}", m)),
            Ok(msgs) => {
                l.outcome(digest_str(&format!("{}{:?}", case(), msgs.len())));
                if !msgs.is_empty() {
                    l.violation("training", case(), msgs.join("; "));
                }
            }
        }
        l.sample(&case);
    });
    total.merge(local);
    json!({"stacks": stacks.len(), "step_sequences_per_stack": all.len(), "max_len": max_len})
}

pub fn explore(opts: &Opts) -> Explored {
    let (mut local, stats) = run_all(opts, machines(opts));
    let tr = training(opts, &mut local);
    Explored {
        local,
        bounds: json!({"machines": stats, "training": tr}),
        rule: "explicit-state BFS over histories of build / backward / clear / drop / clone / fetch / update; in every reached state every template leaf that the reference says nothing alive derives from (no other handle of the node, no live node reaching it through a retained edge or sharing its buffer) must convert into a Vec (sole owner), with and without stored gradients; plus every forward/backward/update step sequence of three models: after a later forward the previous input, after backward the target, are sole owners".into(),
        exhaustive: true,
        assumptions: vec!["ownership is observed only through Vec::<Float>::from (Rc::try_unwrap), as the statement prescribes".into()],
    }
}
