//! C16 - construction, row-major layout, indexing and equality are consistent (engine E1).

use crate::common::*;
use crate::refmodel::*;
use crate::shapes::*;
use crate::Explored;
use corgi::arr;
use corgi::array::Array;
use corgi::numbers::Float;
use serde_json::json;

fn fl(v: &[f64]) -> Vec<Float> {
    v.iter().map(|x| *x as Float).collect()
}

/// build an array of dimensions `d` by nesting `Array::from(Vec<Array>)` at every level
fn nested(d: &[usize], v: &[f64]) -> Array {
    if d.len() == 1 {
        return Array::from(fl(v));
    }
    let inner: usize = d[1..].iter().product();
    let parts: Vec<Array> = (0..d[0]).map(|i| nested(&d[1..], &v[i * inner..(i + 1) * inner])).collect();
    Array::from(parts)
}

/// as `nested`, but at every level the parts selected by `mask` are still held by a clone while
/// the level is assembled
fn nested_masked(d: &[usize], v: &[f64], mask: u32) -> Array {
    if d.len() == 1 {
        return Array::from(fl(v));
    }
    let inner: usize = d[1..].iter().product();
    let parts: Vec<Array> = (0..d[0]).map(|i| nested_masked(&d[1..], &v[i * inner..(i + 1) * inner], mask)).collect();
    let keep: Vec<Array> = parts.iter().enumerate().filter(|(i, _)| mask >> i & 1 == 1).map(|(_, p)| p.clone()).collect();
    let a = Array::from(parts);
    drop(keep);
    a
}

fn check_layout(l: &mut Local, sub: &str, case: &dyn Fn() -> String, d: &[usize], v: &[f64], got: Result<(Vec<usize>, Vec<Float>), String>) {
    l.transitions += 1;
    l.validated += 1;
    match got {
        Err(msg) => l.violation(sub, case(), format!("panicked: {}", msg)),
        Ok((gd, gv)) => {
            l.outcome(digest_vals(&gd, &gv));
            if gd != d {
                l.violation(sub, case(), format!("dimensions {:?}, expected {:?}", gd, d));
            } else if gv != fl(v) {
                l.violation(sub, case(), format!("values {} are not the row-major values {:?}", fmt_vals(&gv), v));
            }
        }
    }
}

fn must_refuse(l: &mut Local, sub: &str, case: &dyn Fn() -> String, f: impl FnOnce() -> Vec<usize>) {
    l.transitions += 1;
    l.validated += 1;
    match run_catch(f) {
        Err(_) => {
            l.count("refused_as_required");
            l.outcome(1);
        }
        Ok(d) => l.violation(sub, case(), format!("construction must panic, but an array of dimensions {:?} was returned", d)),
    }
}

pub fn explore(opts: &Opts) -> Explored {
    let (rank, dim) = match opts.tier {
        Tier::Quick => (4, 3),
        Tier::Thorough => (4, 4),
    };
    let sh = shapes(rank, dim);
    let var = opts.seed % 3;
    let mut local = par(opts, sh.len(), |i, l| {
        let d = &sh[i];
        let n = numel(d);
        let v = vals_signed(n, 0, var);
        l.states += 1;
        let name = fmt_dims(d);
        // constructors
        let case = || format!("from((dims,values)) {}", name);
        if l.want(&case) {
            let got = run_catch(|| {
                let a = Array::from((d.clone(), fl(&v)));
                (a.dimensions().to_vec(), a.values().to_vec())
            });
            check_layout(l, "construct", &case, d, &v, got);
            l.sample(&case);
        }
        // the constructor that shares a caller-held buffer
        let case = || format!("from((dims,Rc<values>)) {}", name);
        if l.want(&case) {
            let got = run_catch(|| {
                let buf = std::rc::Rc::new(fl(&v));
                let a = Array::from((d.clone(), std::rc::Rc::clone(&buf)));
                assert!(buf.len() == n);
                (a.dimensions().to_vec(), a.values().to_vec())
            });
            check_layout(l, "construct", &case, d, &v, got);
            for z in 0..d.len() {
                let mut dz = d.clone();
                dz[z] = 0;
                must_refuse(l, "refuse", &case, move || Array::from((dz, std::rc::Rc::new(Vec::<Float>::new()))).dimensions().to_vec());
            }
            for delta in [-1i64, 1, 2] {
                let len = n as i64 + delta;
                if len < 0 {
                    continue;
                }
                let dd = d.clone();
                must_refuse(l, "refuse", &case, move || Array::from((dd, std::rc::Rc::new(vec![1.0 as Float; len as usize]))).dimensions().to_vec());
            }
            // a zero dimension whose element count happens to "match" (no values at all)
            let mut dz = d.clone();
            dz.push(0);
            must_refuse(l, "refuse", &case, move || Array::from((dz, std::rc::Rc::new(Vec::<Float>::new()))).dimensions().to_vec());
        }
        let case = || format!("from(vec<float>) n={} (from {})", n, name);
        if l.want(&case) {
            let got = run_catch(|| {
                let a = Array::from(fl(&v));
                (a.dimensions().to_vec(), a.values().to_vec())
            });
            check_layout(l, "construct", &case, &[n], &v, got);
        }
        let case = || format!("from(dims) zeros {}", name);
        if l.want(&case) {
            let got = run_catch(|| {
                let a = Array::from(d.clone());
                (a.dimensions().to_vec(), a.values().to_vec())
            });
            check_layout(l, "construct", &case, d, &vec![0.0; n], got);
        }
        let case = || format!("nested from(vec<array>) {}", name);
        if l.want(&case) {
            let got = run_catch(|| {
                let a = nested(d, &v);
                (a.dimensions().to_vec(), a.values().to_vec())
            });
            check_layout(l, "nested", &case, d, &v, got);
        }
        // nesting clones that are still shared (ownership cannot be taken)
        let case = || format!("nested from(vec<array>) of shared clones {}", name);
        if l.want(&case) && d.len() >= 2 {
            let inner: usize = d[1..].iter().product();
            let got = run_catch(|| {
                let parts: Vec<Array> = (0..d[0]).map(|i| nested(&d[1..], &v[i * inner..(i + 1) * inner])).collect();
                let keep: Vec<Array> = parts.iter().cloned().collect();
                let a = Array::from(parts);
                let ok = keep.iter().enumerate().all(|(i, k)| k.values() == &fl(&v[i * inner..(i + 1) * inner])[..]);
                assert!(ok, "parts changed");
                (a.dimensions().to_vec(), a.values().to_vec())
            });
            check_layout(l, "nested", &case, d, &v, got);
        }
        // every subset of the parts is still held by another live handle (plain clone, or tracked
        // clone) when the parts are nested: construction must not depend on who else owns a part
        if d.len() >= 2 && d[0] <= 4 {
            let inner: usize = d[1..].iter().product();
            for mask in 1u32..(1u32 << d[0]) {
                for kind in 0..2usize {
                    let case = || format!("nested from(vec<array>) {} with parts {:#b} also held by {}", name, mask, if kind == 0 { "a live clone" } else { "a live tracked clone used in a graph" });
                    if l.want(&case) {
                        let got = run_catch(|| {
                            let parts: Vec<Array> = (0..d[0]).map(|i| nested_masked(&d[1..], &v[i * inner..(i + 1) * inner], mask)).collect();
                            let mut keep: Vec<Array> = Vec::new();
                            for (i, p) in parts.iter().enumerate() {
                                if mask >> i & 1 == 1 {
                                    if kind == 0 {
                                        keep.push(p.clone());
                                    } else {
                                        let t = p.clone().tracked();
                                        keep.push(&t * &t);
                                    }
                                }
                            }
                            let a = Array::from(parts);
                            drop(keep);
                            (a.dimensions().to_vec(), a.values().to_vec())
                        });
                        check_layout(l, "nested", &case, d, &v, got);
                    }
                }
            }
        }
        // refusals: a zero anywhere in the dimensions
        for z in 0..d.len() {
            let case = || format!("zero dimension at {} of {}", z, name);
            if l.want(&case) {
                let mut dz = d.clone();
                dz[z] = 0;
                let dz2 = dz.clone();
                must_refuse(l, "refuse", &case, move || Array::from(dz2).dimensions().to_vec());
                let dz3 = dz.clone();
                must_refuse(l, "refuse", &case, move || Array::from((dz3, Vec::<Float>::new())).dimensions().to_vec());
            }
        }
        // refusals: element count off by one
        let case = || format!("element count +1 for {}", name);
        if l.want(&case) {
            let mut vv = fl(&v);
            vv.push(1.0);
            let dd = d.clone();
            must_refuse(l, "refuse", &case, move || Array::from((dd, vv)).dimensions().to_vec());
        }
        let case = || format!("element count -1 for {}", name);
        if l.want(&case) {
            let mut vv = fl(&v);
            vv.pop();
            let dd = d.clone();
            must_refuse(l, "refuse", &case, move || Array::from((dd, vv)).dimensions().to_vec());
        }
        // refusals: nested shapes differing in exactly one position
        if d.len() >= 2 && d[0] >= 2 {
            for pos in 1..d.len() {
                for which in [0usize, d[0] - 1] {
                    let case = || format!("nested parts of {} where part {} differs at dimension {}", name, which, pos);
                    if l.want(&case) {
                        let dd = d.clone();
                        must_refuse(l, "refuse", &case, move || {
                            let mut parts = Vec::new();
                            for i in 0..dd[0] {
                                let mut pd = dd[1..].to_vec();
                                if i == which {
                                    pd[pos - 1] += 1;
                                }
                                parts.push(Array::from(pd));
                            }
                            Array::from(parts).dimensions().to_vec()
                        });
                    }
                }
            }
        }
        // refusals: nested parts of equal rank and element count but different dimensions
        if d.len() >= 3 && d[0] >= 2 {
            let inner = d[1..].to_vec();
            let mut perms: Vec<Vec<usize>> = Vec::new();
            for i in 0..inner.len() {
                for j in i + 1..inner.len() {
                    if inner[i] != inner[j] {
                        let mut q = inner.clone();
                        q.swap(i, j);
                        perms.push(q);
                    }
                }
            }
            for q in perms {
                for which in [0usize, d[0] - 1] {
                    let case = || format!("nested parts of {} where part {} has the permuted dimensions {}", name, which, fmt_dims(&q));
                    if l.want(&case) {
                        let dd = d.clone();
                        let qq = q.clone();
                        must_refuse(l, "refuse", &case, move || {
                            let mut parts = Vec::new();
                            for i in 0..dd[0] {
                                parts.push(Array::from(if i == which { qq.clone() } else { dd[1..].to_vec() }));
                            }
                            Array::from(parts).dimensions().to_vec()
                        });
                    }
                }
            }
        }
        // refusals: a nested part whose rank differs only by unit dimensions (same element count)
        if d.len() >= 2 && d.len() <= 3 && d[0] >= 2 {
            for which in [0usize, d[0] - 1] {
                for variant in 0..2usize {
                    let case = || format!("nested parts of {} where part {} has {}", name, which, if variant == 0 { "an extra trailing unit dimension" } else { "an extra leading unit dimension" });
                    if l.want(&case) {
                        let dd = d.clone();
                        must_refuse(l, "refuse", &case, move || {
                            let mut parts = Vec::new();
                            for i in 0..dd[0] {
                                let mut pd = dd[1..].to_vec();
                                if i == which {
                                    if variant == 0 {
                                        pd.push(1);
                                    } else {
                                        pd.insert(0, 1);
                                    }
                                }
                                parts.push(Array::from(pd));
                            }
                            Array::from(parts).dimensions().to_vec()
                        });
                    }
                }
            }
        }
        // indexing: every multi-index and every flat index
        let case = || format!("index every element of {}", name);
        if l.want(&case) {
            let a = Array::from((d.clone(), fl(&v)));
            let mut bad = None;
            for f in 0..n {
                let idx = unravel(f, d);
                l.transitions += 2;
                l.validated += 2;
                let idx2 = idx.clone();
                match run_catch(|| (a[idx2], a[f])) {
                    Err(msg) => {
                        bad = Some(format!("index {:?} / {} panicked: {}", idx, f, msg));
                        break;
                    }
                    Ok((m, fv)) => {
                        if m != v[f] as Float || fv != v[f] as Float {
                            bad = Some(format!("index {:?} gives {}, flat index {} gives {}, row-major element is {}", idx, m, f, fv, v[f]));
                            break;
                        }
                    }
                }
            }
            if let Some(b) = bad {
                l.violation("index", case(), b);
            }
        }
        // equality
        let case = || format!("equality variants of {}", name);
        if l.want(&case) {
            let got = run_catch(|| {
                let a = Array::from((d.clone(), fl(&v)));
                let mut msgs = Vec::new();
                // same dims and values, different tracking / graph / gradient
                let t = Array::from((d.clone(), fl(&v))).tracked();
                if !(a == t) {
                    msgs.push("a tracked copy compares unequal".to_string());
                }
                let ones = Array::from((d.clone(), vec![1.0 as Float; n])).tracked();
                let g = &t * &ones;
                if !(g == a) || !(a == g) {
                    msgs.push("a result carrying a graph compares unequal to a plain array with the same values".to_string());
                }
                g.backward(None);
                if !(t == a) {
                    msgs.push("an array holding a gradient compares unequal".to_string());
                }
                let c = a.clone();
                if !(c == a) {
                    msgs.push("a clone compares unequal".to_string());
                }
                if !(a.reshape(d.clone()) == a) {
                    msgs.push("a reshape to the same dimensions compares unequal".to_string());
                }
                // one value differs
                for f in [0, n - 1, n / 2] {
                    let mut v2 = fl(&v);
                    v2[f] += 1.0;
                    let b = Array::from((d.clone(), v2));
                    if a == b || !(a != b) {
                        msgs.push(format!("arrays differing in element {} compare equal", f));
                    }
                }
                // the smallest representable difference in one value
                for f in [0, n - 1, n / 2] {
                    let mut v2 = fl(&v);
                    v2[f] = Float::from_bits(v2[f].to_bits() + 1);
                    let b = Array::from((d.clone(), v2));
                    if a == b || b == a || !(a != b) {
                        msgs.push(format!("arrays differing by one unit in the last place of element {} compare equal", f));
                    }
                }
                // special values: infinities, the largest and the smallest magnitudes compare by value
                let specials: [Float; 6] = [Float::INFINITY, Float::NEG_INFINITY, Float::MAX, Float::MIN, Float::MIN_POSITIVE, Float::from_bits(1)];
                for f in [0, n - 1] {
                    for (si, sv) in specials.iter().enumerate() {
                        let mut v2 = fl(&v);
                        v2[f] = *sv;
                        let x = Array::from((d.clone(), v2.clone()));
                        let y = Array::from((d.clone(), v2.clone())).tracked();
                        if !(x == x.clone()) || !(x == y) || !(y == x) || x != y {
                            msgs.push(format!("two arrays with the same values, element {} being {:e}, compare unequal", f, sv));
                        }
                        let r = &y * &ones;
                        if !(r == x) {
                            msgs.push(format!("a result with element {} being {:e} compares unequal to a plain array with the same values", f, sv));
                        }
                        for (sj, sw) in specials.iter().enumerate() {
                            if si != sj {
                                let mut v3 = v2.clone();
                                v3[f] = *sw;
                                let z = Array::from((d.clone(), v3));
                                if x == z || !(x != z) {
                                    msgs.push(format!("arrays whose element {} is {:e} resp. {:e} compare equal", f, sv, sw));
                                }
                            }
                        }
                        if x == a {
                            msgs.push(format!("an array whose element {} is {:e} compares equal to one where it is {:e}", f, sv, v[f]));
                        }
                    }
                }
                // zeros of either sign are equal values; a NaN is equal to nothing, not even to itself
                {
                    let mut vz = fl(&v);
                    vz[0] = 0.0;
                    let mut vn = vz.clone();
                    vn[0] = -0.0;
                    let (z, nz) = (Array::from((d.clone(), vz.clone())), Array::from((d.clone(), vn)));
                    if !(z == nz) || !(nz == z) || z != nz {
                        msgs.push("arrays that differ only in the sign of a zero compare unequal".to_string());
                    }
                    let prod = &nz * &ones;
                    if !(prod == z) {
                        msgs.push("a computed negative zero compares unequal to zero".to_string());
                    }
                    let mut vq = vz;
                    vq[n - 1] = Float::NAN;
                    let q = Array::from((d.clone(), vq));
                    if q == q.clone() || !(q != q.clone()) {
                        msgs.push("an array holding a NaN compares equal to its clone (NaN is not equal to itself)".to_string());
                    }
                }
                // same values, different dimensions with the same element count
                for d2 in shapes_with_numel(n, 4) {
                    if &d2 != d {
                        let b = Array::from((d2.clone(), fl(&v)));
                        if a == b {
                            msgs.push(format!("dimensions {:?} and {:?} with the same values compare equal", d, d2));
                        }
                        // the same through views that share the storage
                        let view = a.reshape(d2.clone());
                        if a == view || view == a {
                            msgs.push(format!("a {:?} array compares equal to its {:?} reshape", d, d2));
                        }
                        let tview = t.reshape(d2.clone());
                        if tview == t || tview == a {
                            msgs.push(format!("a tracked {:?} array compares equal to its {:?} reshape", d, d2));
                        }
                    }
                }
                msgs
            });
            l.transitions += 1;
            l.validated += 1;
            match got {
                Err(msg) => l.violation("equality", case(), format!("panicked: {}", msg)),
                Ok(m) if !m.is_empty() => l.violation("equality", case(), m.join("; ")),
                _ => {}
            }
        }
    });
    // literal arr! uses at depths 1-4
    {
        let l = &mut local;
        let lits: Vec<(&str, Array, Vec<usize>, Vec<f64>)> = vec![
            ("arr![1,2,3]", arr![1.0, 2.0, 3.0], vec![3], vec![1.0, 2.0, 3.0]),
            ("arr![arr![1,2],arr![3,4],arr![5,6]]", arr![arr![1.0, 2.0], arr![3.0, 4.0], arr![5.0, 6.0]], vec![3, 2], vec![1.0, 2.0, 3.0, 4.0, 5.0, 6.0]),
            (
                "arr![arr![arr![1],arr![2]],arr![arr![3],arr![4]]]",
                arr![arr![arr![1.0], arr![2.0]], arr![arr![3.0], arr![4.0]]],
                vec![2, 2, 1],
                vec![1.0, 2.0, 3.0, 4.0],
            ),
            (
                "arr![arr![arr![arr![1,2]],arr![arr![3,4]]]]",
                arr![arr![arr![arr![1.0, 2.0]], arr![arr![3.0, 4.0]]]],
                vec![1, 2, 1, 2],
                vec![1.0, 2.0, 3.0, 4.0],
            ),
        ];
        for (name, a, d, v) in lits {
            let case = || format!("literal {}", name);
            if l.want(&case) {
                check_layout(l, "literal", &case, &d, &v, Ok((a.dimensions().to_vec(), a.values().to_vec())));
            }
        }
        let case = || "literal with ragged nesting".to_string();
        if l.want(&case) {
            must_refuse(l, "refuse", &case, || arr![arr![1.0, 2.0], arr![3.0]].dimensions().to_vec());
        }
    }
    Explored {
        local,
        bounds: json!({"max_rank": rank, "max_dim": dim, "shapes": sh.len()}),
        rule: "every shape: four constructors, nested construction at every depth (owned and shared parts), every refusal of the statement (zero at each position, element count +-1, nested part differing at each position), every multi-index and flat index, equality variants (tracking, graph, gradient, clone, one value, every other shape with the same element count); plus literal arr! uses at depths 1-4".into(),
        exhaustive: true,
        assumptions: vec![],
    }
}
