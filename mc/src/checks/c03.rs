//! C03 - gradients have their array's shape; broadcast contributions are summed (E1 + E2).

use crate::common::*;
use crate::ops::*;
use crate::prog::*;
use crate::progcheck::*;
use crate::refmodel::*;
use crate::shapes::*;
use crate::spaces::*;
use crate::Explored;
use corgi::array::Array;
use corgi::numbers::Float;
use corgi::optimizer::gd::GradientDescent;
use corgi::optimizer::Optimizer;
use serde_json::json;

struct Item {
    sub: String,
    prog: Program,
    mask: Vec<bool>,
}

fn lf(d: &[usize], salt: usize, var: u64) -> Leaf {
    Leaf { dims: d.to_vec(), vals: vals(numel(d), salt, var) }
}

pub fn explore(opts: &Opts) -> Explored {
    let var = opts.seed % 3;
    let sh = union(shapes(3, 3), shapes(4, 2));
    let ops = [OpK::Add, OpK::Mul, OpK::Div, OpK::Axpy(-2.0)];
    let mut items: Vec<Item> = Vec::new();
    for a in &sh {
        for b in &sh {
            let out = match broadcast_dims(a, b) {
                Some(o) => o,
                None => continue,
            };
            if &out == b {
                continue; // b is not strictly broadcast
            }
            for op in &ops {
                for b_first in [false, true] {
                    for uses in 1..=3usize {
                        for own in 0..3u8 {
                            if uses == 3 && own != 0 && opts.tier == Tier::Quick && a.len() > 2 {
                                continue;
                            }
                            // leaves: 0 = a, 1 = b, 2 = w (b's shape)
                            let leaves = vec![lf(a, 0, var), lf(b, 1, var), lf(b, 2, var)];
                            let mut nodes = Vec::new();
                            let mut acc: Option<usize> = None;
                            for _ in 0..uses {
                                let args = if b_first { vec![1, 0] } else { vec![0, 1] };
                                nodes.push(PNode { op: op.clone(), args });
                                let t = 3 + nodes.len() - 1;
                                acc = Some(match acc {
                                    None => t,
                                    Some(p) => {
                                        nodes.push(PNode { op: OpK::Add, args: vec![p, t] });
                                        3 + nodes.len() - 1
                                    }
                                });
                            }
                            if own != 0 {
                                nodes.push(PNode { op: OpK::Mul, args: vec![1, 2] });
                                let o = 3 + nodes.len() - 1;
                                let args = if own == 1 { vec![o, acc.unwrap()] } else { vec![acc.unwrap(), o] };
                                nodes.push(PNode { op: OpK::Add, args });
                            }
                            for a_tracked in [true, false] {
                                items.push(Item {
                                    sub: format!("broadcast/{}", op.name()),
                                    prog: Program { leaves: leaves.clone(), nodes: nodes.clone(), retrack: Vec::new(), frozen: Vec::new(), dropped: Vec::new() },
                                    mask: vec![a_tracked, true, false],
                                });
                            }
                        }
                    }
                }
            }
        }
    }
    // the broadcast operand enters through a reshape that only adds, moves or removes unit dimensions
    // (a view sharing its storage), alone and next to a direct use of the same array
    let small = union(shapes(2, 3), vec![vec![1, 2, 1], vec![2, 1, 2], vec![1, 1, 3]]);
    for b in &small {
        let core: Vec<usize> = b.iter().cloned().filter(|d| *d != 1).collect();
        for t in shapes_with_numel(numel(b), 4) {
            let tcore: Vec<usize> = t.iter().cloned().filter(|d| *d != 1).collect();
            if &t == b || tcore != core {
                continue;
            }
            for a in &sh {
                if a.len() > 3 {
                    continue;
                }
                let out = match broadcast_dims(a, &t) {
                    Some(o) => o,
                    None => continue,
                };
                for op in [OpK::Add, OpK::Mul] {
                    for direct in [false, true] {
                        let leaves = vec![lf(a, 0, var), lf(b, 1, var), lf(b, 2, var)];
                        let mut nodes = vec![PNode { op: OpK::Reshape(t.clone()), args: vec![1] }, PNode { op: op.clone(), args: vec![0, 3] }];
                        if direct {
                            // a direct use of b at its own shape, added when the shapes allow it
                            if broadcast_dims(&out, b).is_none() {
                                continue;
                            }
                            nodes.push(PNode { op: OpK::Mul, args: vec![1, 2] });
                            nodes.push(PNode { op: OpK::Add, args: vec![4, 5] });
                        }
                        for m in [[true, true, false], [false, true, false]] {
                            items.push(Item {
                                sub: format!("reshape-view/{}", op.name()),
                                prog: Program { leaves: leaves.clone(), nodes: nodes.clone(), retrack: Vec::new(), frozen: Vec::new(), dropped: Vec::new() },
                                mask: m.to_vec(),
                            });
                        }
                    }
                }
            }
        }
    }
    // broadcast operands with more elements than any block or lane width
    for (a, b) in [(vec![2usize, 65], vec![65usize]), (vec![3, 100], vec![100]), (vec![2, 2, 70], vec![2, 70]), (vec![3, 129], vec![1, 129]), (vec![2, 33, 3], vec![33, 1]), (vec![2, 600, 3], vec![2, 1, 3]), (vec![2, 16, 8, 8], vec![2, 1, 8, 8]), (vec![2000, 3], vec![3])] {
        for op in [OpK::Add, OpK::Mul] {
            for uses in 1..=2usize {
                let leaves = vec![lf(&a, 0, var), lf(&b, 1, var), lf(&b, 2, var)];
                let mut nodes = vec![PNode { op: op.clone(), args: vec![0, 1] }];
                if uses == 2 {
                    nodes.push(PNode { op: OpK::Mul, args: vec![1, 0] });
                    nodes.push(PNode { op: OpK::Add, args: vec![3, 4] });
                }
                // only the broadcast operand is tracked (the large one has thousands of elements)
                items.push(Item { sub: format!("broadcast-long/{}", op.name()), prog: Program { leaves, nodes, retrack: Vec::new(), frozen: Vec::new(), dropped: Vec::new() }, mask: vec![false, true, false] });
            }
        }
    }
    // matmul additive term broadcast over rows and batches, used once and twice
    let leads: Vec<Vec<usize>> = vec![vec![], vec![2], vec![1, 2], vec![2, 2]];
    for c in matmul_configs(2, &leads, true) {
        let cd = match &c.c {
            Some(cd) => cd.clone(),
            None => continue,
        };
        for uses in 1..=2usize {
            let leaves = vec![lf(&c.a, 0, var), lf(&c.b, 1, var), lf(&cd, 2, var)];
            let mut nodes = Vec::new();
            let mm = OpK::Matmul { ta: c.ta, tb: c.tb, bias: true };
            nodes.push(PNode { op: mm.clone(), args: vec![0, 1, 2] });
            if uses == 2 {
                nodes.push(PNode { op: mm.clone(), args: vec![0, 1, 2] });
                nodes.push(PNode { op: OpK::Add, args: vec![3, 4] });
            }
            for m in [[false, false, true], [true, true, true]] {
                items.push(Item { sub: "broadcast/matmul-bias".into(), prog: Program { leaves: leaves.clone(), nodes: nodes.clone(), retrack: Vec::new(), frozen: Vec::new(), dropped: Vec::new() }, mask: m.to_vec() });
            }
        }
    }
    let local = par(opts, items.len(), |i, l| {
        let it = &items[i];
        let p = &it.prog;
        l.states += 1;
        let root = p.nv() - 1;
        let out_n = match eval_ref(p, &it.mask, None) {
            Ok(b) => b[root].len(),
            Err(_) => {
                l.count("skipped");
                return;
            }
        };
        for npass in 1..=2usize {
            for seeded in [false, true] {
                let seed = if seeded { Some(seed_vals(out_n, opts.seed)) } else { None };
                let passes: Vec<Pass> = (0..npass).map(|_| Pass { root, seed: seed.clone() }).collect();
                let case = || {
                    format!("{} mask={:?} {}", p.describe(), it.mask.iter().map(|b| *b as u8).collect::<Vec<_>>(), describe_passes(&passes)).replace(' ', "")
                };
                if !l.want(&case) {
                    continue;
                }
                let cfg = CheckCfg { sub: &it.sub, intermediates: !it.sub.starts_with("broadcast-long"), values: false };
                let v = check_program(p, &it.mask, &passes, &cfg, l, &case);
                l.sample(&case);
                // consequence for the optimizer: each parameter moves by its own gradient
                if v == Verdict::Ok && npass == 1 && !seeded && it.mask[0] {
                    l.transitions += 1;
                    l.validated += 1;
                    let r = run_catch(|| {
                        let mut vals = exec_impl(p, &it.mask);
                        vals[root].backward(None);
                        let ga: Vec<Float> = vals[0].gradient().as_ref().unwrap().values().to_vec();
                        let gb: Vec<Float> = vals[1].gradient().as_ref().unwrap().values().to_vec();
                        let (a0, b0) = (vals[0].values().to_vec(), vals[1].values().to_vec());
                        let gd = GradientDescent::new(1.0);
                        {
                            let (x, y) = vals.split_at_mut(1);
                            let params: Vec<&mut Array> = vec![&mut x[0], &mut y[0]];
                            gd.update(params);
                        }
                        let ok_a = vals[0].values().iter().zip(a0.iter().zip(&ga)).all(|(n, (o, g))| *n == *o - *g);
                        let ok_b = vals[1].values().iter().zip(b0.iter().zip(&gb)).all(|(n, (o, g))| *n == *o - *g);
                        ok_a && ok_b && vals[0].values().len() == a0.len() && vals[1].values().len() == b0.len()
                    });
                    match r {
                        Ok(true) => l.count("optimizer_step_consistent"),
                        Ok(false) => l.violation("optimizer", case(), "after update each parameter must have moved by its own gradient".into()),
                        Err(m) => l.violation("optimizer", case(), format!("update panicked: {}", m)),
                    }
                }
            }
        }
    });
    let mut local = local;
    // two differently shaped views of one untracked array, each made tracked and used as a broadcast
    // operand: each view is an array of its own (own gradient of its own dimensions), the template none
    {
        let l = &mut local;
        let pairs: Vec<(usize, Vec<usize>, Vec<usize>)> = vec![
            (6, vec![2, 3], vec![3, 2]),
            (6, vec![6], vec![2, 3]),
            (6, vec![1, 6], vec![3, 2]),
            (4, vec![2, 2], vec![1, 4]),
            (4, vec![4], vec![2, 2]),
            (3, vec![1, 3], vec![3, 1]),
            (3, vec![3], vec![3, 1]),
        ];
        for (n, d1, d2) in &pairs {
            for template_rank2 in [false, true] {
                for op in 0..2u8 {
                    let case = || format!("views {:?} and {:?} of one untracked {}-element array{} as broadcast operands of {}", d1, d2, n, if template_rank2 { " [1,n]" } else { "" }, if op == 0 { "mul" } else { "add" });
                    if !l.want(&case) {
                        continue;
                    }
                    l.states += 1;
                    l.transitions += 1;
                    l.validated += 1;
                    let tv = vals(*n, 0, var);
                    let (d1c, d2c, nn) = (d1.clone(), d2.clone(), *n);
                    let tvc = tv.clone();
                    let r = run_catch(move || {
                        let t = arr(&if template_rank2 { vec![1, nn] } else { vec![nn] }, &tvc);
                        let v1 = t.reshape(d1c.clone()).tracked();
                        let v2 = t.reshape(d2c.clone()).tracked();
                        let b1 = arr(&[vec![2], d1c.clone()].concat(), &vals(2 * nn, 1, var));
                        let b2 = arr(&[vec![3], d2c.clone()].concat(), &vals(3 * nn, 2, var));
                        let (r1, r2) = if op == 0 { (&b1 * &v1, &b2 * &v2) } else { (&b1 + &v1, &b2 + &v2) };
                        r1.backward(None);
                        r2.backward(None);
                        let g = |a: &Array| a.gradient().as_ref().map(|g| (g.dimensions().to_vec(), g.values().to_vec()));
                        (g(&v1), g(&v2), g(&t))
                    });
                    let expect = |lead: usize, salt: usize| -> Vec<Float> {
                        let bv = vals(lead * n, salt, var);
                        (0..*n).map(|j| (0..lead).map(|i| if op == 0 { bv[i * n + j] } else { 1.0 }).sum::<f64>() as Float).collect()
                    };
                    match r {
                        Err(m) => l.violation("views-of-one-array", case(), format!("panicked: {}", m)),
                        Ok((g1, g2, gt)) => {
                            l.outcome(digest_str(&format!("{:?}{:?}", g1, g2)));
                            let (e1, e2) = (expect(2, 1), expect(3, 2));
                            if g1 != Some((d1.clone(), e1.clone())) {
                                l.violation("views-of-one-array", case(), format!("the first view holds {:?}, expected {:?} {:?}", g1, d1, e1));
                            } else if g2 != Some((d2.clone(), e2.clone())) {
                                l.violation("views-of-one-array", case(), format!("the second view holds {:?}, expected {:?} {:?}", g2, d2, e2));
                            } else if gt.is_some() {
                                l.violation("views-of-one-array", case(), format!("the untracked template holds a gradient {:?}", gt));
                            }
                        }
                    }
                }
            }
        }
    }
    // adjoints that are infinite, or whose sum over the broadcast positions overflows: all terms of
    // one sign, so the summed adjoint is that infinity in every order (and never NaN)
    let mut local = local;
    {
        let l = &mut local;
        let (big, small) = if IS_F32 { (3.0e38, 1.5) } else { (1.0e308, 1.5) };
        for a in &sh {
            for b in &sh {
                let out = match broadcast_dims(a, b) {
                    Some(o) => o,
                    None => continue,
                };
                if &out == b || numel(&out) > 12 {
                    continue;
                }
                let on = numel(&out);
                for kind in 0..4u8 {
                    for b_first in [false, true] {
                        for negate in [false, true] {
                            let case = || format!("{}{}{} with adjoint kind {} (0: one +inf, 1: all huge, 2: one -inf among negatives, 3: last +inf)", if b_first { fmt_dims(b) } else { fmt_dims(a) }, if negate { "-" } else { "+" }, if b_first { fmt_dims(a) } else { fmt_dims(b) }, kind);
                            if !l.want(&case) {
                                continue;
                            }
                            let seed: Vec<f64> = (0..on)
                                .map(|i| match kind {
                                    0 => if i == 0 { f64::INFINITY } else { small + i as f64 },
                                    1 => big,
                                    2 => if i == on / 2 { f64::NEG_INFINITY } else { -small - i as f64 },
                                    _ => if i == on - 1 { f64::INFINITY } else { small },
                                })
                                .collect();
                            // expected: a's and b's gradients are the seed summed over their broadcast positions,
                            // with the sign of the operand's position under subtraction
                            let expect = |dims: &Vec<usize>, sign: f64| -> Vec<Du> {
                                let mut acc = vec![0.0f64; numel(dims)];
                                let mut mag = vec![0.0f64; numel(dims)];
                                for i in 0..on {
                                    let j = bidx(&unravel(i, &out), dims);
                                    acc[j] += sign * seed[i];
                                    mag[j] += seed[i].abs();
                                }
                                acc.iter().zip(&mag).map(|(v, m)| Du { v: 0.0, d: *v, m: 0.0, md: *m, ex: false, amb: false }).collect()
                            };
                            let (first, second) = if b_first { (b, a) } else { (a, b) };
                            let want_first = expect(first, 1.0);
                            let want_second = expect(second, if negate { -1.0 } else { 1.0 });
                            l.states += 1;
                            l.transitions += 1;
                            l.validated += 1;
                            let (fd, sd, od) = (first.clone(), second.clone(), out.clone());
                            let fv = vals(numel(first), 0, var);
                            let sv = vals(numel(second), 1, var);
                            let seedc = seed.clone();
                            let r = run_catch(move || {
                                let x = arr(&fd, &fv).tracked();
                                let y = arr(&sd, &sv).tracked();
                                let z = if negate { &x - &y } else { &x + &y };
                                z.backward(Some(arr(&od, &seedc)));
                                let gx = x.gradient().clone().unwrap();
                                let gy = y.gradient().clone().unwrap();
                                (gx.dimensions().to_vec(), gx.values().to_vec(), gy.dimensions().to_vec(), gy.values().to_vec())
                            });
                            match r {
                                Err(m) => l.violation("broadcast/infinite-adjoint", case(), format!("panicked: {}", m)),
                                Ok((d1, v1, d2, v2)) => {
                                    l.outcome(digest_vals(&d1, &v1) ^ digest_vals(&d2, &v2).rotate_left(1));
                                    if &d1 != first || &d2 != second {
                                        l.violation("broadcast/infinite-adjoint", case(), format!("gradient dimensions {:?} and {:?}", d1, d2));
                                    } else if let Err(e) = cmp_slice_inf(&v1, &want_first, Part::Tangent) {
                                        l.violation("broadcast/infinite-adjoint", case(), format!("first operand's gradient {}: {}", fmt_vals(&v1), e));
                                    } else if let Err(e) = cmp_slice_inf(&v2, &want_second, Part::Tangent) {
                                        l.violation("broadcast/infinite-adjoint", case(), format!("second operand's gradient {}: {}", fmt_vals(&v2), e));
                                    }
                                }
                            }
                        }
                    }
                }
            }
        }
    }
    Explored {
        local,
        bounds: json!({"shapes": "S(3,3) u S(4,2)", "programs": items.len(), "ops": ["add", "mul", "div", "axpy(-2)", "matmul additive term"],
                       "uses_of_broadcast_operand": "1..3", "own_shape_use": ["none", "before", "after"], "passes": "1..2", "seeds": ["ones", "generic"]}),
        rule: "every admissible pair (A,B) with B strictly broadcast x op x operand position x number of uses x own-shape use before/after x A tracked or not x passes x seed; every gradient must have exactly its array's dimensions and equal the summed adjoint of the reference (integer-exact)".into(),
        exhaustive: true,
        assumptions: vec!["values are fixed generic valuations".into()],
    }
}
