//! Shape spaces and the fixed "generic" valuations.

#![allow(dead_code)]

/// S(R, D): all shapes of rank 1..=R with every size in 1..=D, in order of rank then lexicographic.
pub fn shapes(max_rank: usize, max_dim: usize) -> Vec<Vec<usize>> {
    let mut out = Vec::new();
    for r in 1..=max_rank {
        let mut cur = vec![1usize; r];
        loop {
            out.push(cur.clone());
            let mut k = r;
            loop {
                if k == 0 {
                    break;
                }
                k -= 1;
                if cur[k] < max_dim {
                    cur[k] += 1;
                    for j in k + 1..r {
                        cur[j] = 1;
                    }
                    break;
                }
                if k == 0 {
                    k = usize::MAX;
                    break;
                }
            }
            if k == usize::MAX {
                break;
            }
        }
    }
    out
}

/// union without duplicates, order preserved
pub fn union(a: Vec<Vec<usize>>, b: Vec<Vec<usize>>) -> Vec<Vec<usize>> {
    let mut out = a;
    for s in b {
        if !out.contains(&s) {
            out.push(s);
        }
    }
    out
}

/// all shapes of rank 1..=max_rank with exactly `n` elements
pub fn shapes_with_numel(n: usize, max_rank: usize) -> Vec<Vec<usize>> {
    fn rec(n: usize, r: usize, cur: &mut Vec<usize>, out: &mut Vec<Vec<usize>>) {
        if r == 0 {
            if n == 1 {
                out.push(cur.clone());
            }
            return;
        }
        for d in 1..=n {
            if n % d == 0 {
                cur.push(d);
                rec(n / d, r - 1, cur, out);
                cur.pop();
            }
        }
    }
    let mut out = Vec::new();
    for r in 1..=max_rank {
        rec(n, r, &mut Vec::new(), &mut out);
    }
    out
}

fn gcd(a: usize, b: usize) -> usize {
    if b == 0 {
        a
    } else {
        gcd(b, a % b)
    }
}

/// a stride >= 3 coprime to n, so that i -> i*stride mod n is a permutation
fn coprime_stride(n: usize) -> usize {
    if n <= 2 {
        return 1;
    }
    let mut k = 3;
    while gcd(k, n) != 1 {
        k += 1;
    }
    k
}

const MULT: [f64; 6] = [1.0, 2.0, 3.0, 1.0, 2.0, 1.0];
const OFF: [f64; 6] = [2.0, 3.0, 5.0, 11.0, 7.0, 4.0];

/// Generic valuation: distinct positive integers within an array, different progressions for
/// different operands (`salt`), a few deterministic variants.
pub fn vals(n: usize, salt: usize, variant: u64) -> Vec<f64> {
    // variants 3 and 4 are degenerate on purpose: value-dependent shortcuts ("all elements equal",
    // "all zero") are a realistic kind of optimisation
    if variant == 3 {
        return vec![2.0 + (salt % 3) as f64; n];
    }
    if variant == 4 {
        return vec![0.0; n];
    }
    // variants 5 and 6: the generic progression scaled down so that products of two operands are
    // (5) far below machine epsilon in absolute terms, (6) subnormal: magnitude thresholds
    // ("skip terms smaller than ...") would show. Not meaningful under f32 for variant 6.
    if variant == 5 || variant == 6 {
        let scale = match (variant, salt % 2) {
            (5, 0) => 1.0e-8,
            (5, _) => 1.0e-9,
            (_, 0) => 1.0e-155,
            (_, _) => 1.0e-154,
        };
        return vals(n, salt, 0).into_iter().map(|v| v * scale).collect();
    }
    let s = salt % 6;
    (0..n)
        .map(|i| {
            // a permutation-ish stride so that neighbouring elements are not in arithmetic order
            let j = (i * coprime_stride(n) + (variant as usize) * 3) % n.max(1);
            j as f64 * MULT[s] + OFF[s] + variant as f64
        })
        .collect()
}

/// Positive valuations whose products (kind 0) or sums (kind 1) overflow: every term of every sum
/// is non-negative, so every evaluation order gives the same infinity (no cancellation), and a
/// reference value that is infinite is *the* specified result. `huge`^2 overflows, `huge` does
/// not; two `big` overflow when added, one does not.
pub fn vals_overflow(n: usize, salt: usize, kind: u64) -> Vec<f64> {
    let (huge, big) = if crate::common::IS_F32 { (1.0e30, 3.0e38) } else { (1.0e200, 1.0e308) };
    (0..n)
        .map(|i| {
            if kind == 0 {
                // operands of different salts carry `huge` at different residues, so that some products
                // are huge*huge, some huge*small and some small*small
                match (i + salt) % 4 {
                    0 => huge,
                    1 => 1.0 + (i % 3) as f64,
                    2 => 0.5,
                    _ => if salt % 2 == 0 { huge } else { 2.0 },
                }
            } else if salt == 0 {
                if i % 5 == 4 { 1.0 } else { big }
            } else {
                1.0
            }
        })
        .collect()
}

/// Like `vals`, with every third element negated and one zero when n >= 4 (relu/neg coverage).
pub fn vals_signed(n: usize, salt: usize, variant: u64) -> Vec<f64> {
    let mut v = vals(n, salt, variant);
    for (i, x) in v.iter_mut().enumerate() {
        if i % 3 == 1 {
            *x = -*x;
        }
    }
    if n >= 4 {
        v[3] = 0.0;
    }
    v
}

/// small values (dyadic fractions in [0.5, 2.75]) for exp / sigmoid / softmax / powf chains
pub fn vals_small(n: usize, salt: usize, variant: u64) -> Vec<f64> {
    (0..n)
        .map(|i| {
            let j = (i * 3 + salt * 7 + variant as usize) % 10;
            0.5 + 0.25 * j as f64
        })
        .collect()
}

pub fn fmt_dims(d: &[usize]) -> String {
    format!("{:?}", d).replace(' ', "")
}

/// a few larger shapes (long last dimension, more elements than any lane width or block size a
/// fast path is likely to use), added sparsely to the exhaustive small spaces
pub fn long_shapes() -> Vec<Vec<usize>> {
    vec![vec![5], vec![8], vec![9], vec![17], vec![33], vec![65], vec![2, 9], vec![3, 1, 8], vec![2, 2, 17], vec![1, 16], vec![3, 64]]
}
