//! Configuration spaces shared by several checks (matmul and conv geometries).

#![allow(dead_code)]

use crate::common::Tier;
use crate::shapes::fmt_dims;

#[derive(Clone, Debug, PartialEq)]
pub struct MatCfg {
    pub a: Vec<usize>,
    pub ta: bool,
    pub b: Vec<usize>,
    pub tb: bool,
    pub c: Option<Vec<usize>>,
}

impl MatCfg {
    pub fn describe(&self) -> String {
        format!(
            "matmul a={} ta={} b={} tb={} c={}",
            fmt_dims(&self.a),
            self.ta as u8,
            fmt_dims(&self.b),
            self.tb as u8,
            match &self.c {
                Some(c) => fmt_dims(c),
                None => "none".into(),
            }
        )
    }
}

pub fn leading_patterns() -> Vec<Vec<usize>> {
    vec![
        vec![],
        vec![1],
        vec![2],
        vec![3],
        vec![1, 2],
        vec![2, 1],
        vec![2, 2],
        vec![2, 3],
    ]
}

fn cat(a: &[usize], b: &[usize]) -> Vec<usize> {
    let mut v = a.to_vec();
    v.extend_from_slice(b);
    v
}

fn bcast(a: &[usize], b: &[usize]) -> Option<Vec<usize>> {
    crate::refmodel::broadcast_dims(a, b)
}

fn push_unique(v: &mut Vec<Option<Vec<usize>>>, c: Option<Vec<usize>>) {
    if !v.contains(&c) {
        v.push(c);
    }
}

/// The complete matmul configuration space: admissible and inadmissible combinations.
pub fn matmul_configs(max_size: usize, leads: &[Vec<usize>], with_bias: bool) -> Vec<MatCfg> {
    let mut out = Vec::new();
    for rows in 1..=max_size {
        for inner in 1..=max_size {
            for cols in 1..=max_size {
                for &ta in &[false, true] {
                    for &tb in &[false, true] {
                        let am = if ta { vec![inner, rows] } else { vec![rows, inner] };
                        let bm = if tb { vec![cols, inner] } else { vec![inner, cols] };
                        for la in leads {
                            for lb in leads {
                                let a = cat(la, &am);
                                let b = cat(lb, &bm);
                                let mut biases: Vec<Option<Vec<usize>>> = vec![None];
                                if with_bias {
                                    push_unique(&mut biases, Some(vec![cols]));
                                    push_unique(&mut biases, Some(vec![rows, cols]));
                                    push_unique(&mut biases, Some(vec![1, cols]));
                                    push_unique(&mut biases, Some(vec![1]));
                                    if let Some(l) = bcast(la, lb) {
                                        if !l.is_empty() {
                                            push_unique(&mut biases, Some(cat(&l, &[rows, cols])));
                                            push_unique(&mut biases, Some(cat(&l, &[1, cols])));
                                            let ones = vec![1; l.len()];
                                            push_unique(&mut biases, Some(cat(&ones, &[rows, cols])));
                                        }
                                    }
                                    // a bias that cannot be broadcast: wrong number of columns
                                    push_unique(&mut biases, Some(vec![cols + 1]));
                                }
                                for c in biases {
                                    out.push(MatCfg { a: a.clone(), ta, b: b.clone(), tb, c });
                                }
                            }
                        }
                        // inner-dimension mismatch (must be refused), no leading dimensions
                        let bm_bad = if tb { vec![cols, inner + 1] } else { vec![inner + 1, cols] };
                        out.push(MatCfg { a: am.clone(), ta, b: bm_bad.clone(), tb, c: None });
                        out.push(MatCfg { a: cat(&[2], &am), ta, b: cat(&[2], &bm_bad), tb, c: None });
                    }
                }
            }
        }
    }
    // rank-1 forms
    for k in 1..=max_size {
        for n in 1..=max_size {
            for &t1 in &[false, true] {
                for &t2 in &[false, true] {
                    for l in [vec![], vec![2]] {
                        // vector next to a matrix (as a one-row matrix, possibly transposed)
                        for r in 1..=max_size {
                            let bm = if t2 { vec![n, r] } else { vec![r, n] };
                            out.push(MatCfg { a: vec![k], ta: t1, b: cat(&l, &bm), tb: t2, c: None });
                            let am = if t1 { vec![r, n] } else { vec![n, r] };
                            out.push(MatCfg { a: cat(&l, &am), ta: t1, b: vec![k], tb: t2, c: None });
                        }
                    }
                }
            }
            // two untransposed vectors: dot product, or refusal when the lengths differ
            out.push(MatCfg { a: vec![k], ta: false, b: vec![n], tb: false, c: None });
        }
    }
    out.dedup();
    out
}

pub fn matmul_space(tier: Tier) -> Vec<MatCfg> {
    match tier {
        Tier::Quick => matmul_configs(3, &leading_patterns(), true),
        Tier::Thorough => matmul_configs(5, &leading_patterns(), true),
    }
}

#[derive(Clone, Debug, PartialEq)]
pub struct ConvCfg {
    pub image: Vec<usize>,
    pub filters: Vec<usize>,
    pub sr: usize,
    pub sc: usize,
}

impl ConvCfg {
    pub fn describe(&self) -> String {
        format!(
            "conv image={} filters={} stride=({},{})",
            fmt_dims(&self.image),
            fmt_dims(&self.filters),
            self.sr,
            self.sc
        )
    }
}

pub fn conv_configs(
    max_img: usize,
    max_filter: usize,
    max_stride: usize,
    depths: &[usize],
    counts: &[usize],
    batches: &[Vec<usize>],
) -> Vec<ConvCfg> {
    let mut out = Vec::new();
    for rows in 1..=max_img {
        for cols in 1..=max_img {
            for fr in 1..=max_filter.min(rows) {
                for fc in 1..=max_filter.min(cols) {
                    for sr in 1..=max_stride {
                        for sc in 1..=max_stride {
                            for &d in depths {
                                for &n in counts {
                                    for b in batches {
                                        out.push(ConvCfg {
                                            image: cat(b, &[d, rows, cols]),
                                            filters: vec![n, d, fr, fc],
                                            sr,
                                            sc,
                                        });
                                    }
                                }
                            }
                        }
                    }
                }
            }
        }
    }
    out
}

pub fn conv_space(tier: Tier) -> Vec<ConvCfg> {
    let batches = vec![vec![], vec![1], vec![2], vec![3], vec![2, 2]];
    match tier {
        Tier::Quick => conv_configs(4, 3, 3, &[1, 2], &[1, 2], &batches),
        Tier::Thorough => {
            let mut b = batches.clone();
            b.push(vec![2, 3]);
            b.push(vec![1, 2, 2]);
            conv_configs(6, 3, 3, &[1, 2, 3], &[1, 2, 3], &b)
        }
    }
}
