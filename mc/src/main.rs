mod checks;
mod common;
mod gen;
mod machine;
mod nn;
mod ops;
mod prog;
mod progcheck;
mod spaces;
mod refmodel;
mod selftest;
mod shapes;

use common::*;
use serde_json::Value;
use std::time::Instant;

pub struct Explored {
    pub local: Local,
    pub bounds: Value,
    pub rule: String,
    pub exhaustive: bool,
    pub assumptions: Vec<String>,
}

fn explore_by_id(id: &str, opts: &Opts) -> Explored {
    match id {
        "C01" => checks::c01::explore(opts),
        "C02" => checks::c02::explore(opts),
        "C03" => checks::c03::explore(opts),
        "C04" => checks::c04::explore(opts),
        "C05" => checks::c05::explore(opts),
        "C06" => checks::c06::explore(opts),
        "C07" => checks::c07::explore(opts),
        "C08" => checks::c08::explore(opts),
        "C09" => checks::c09::explore(opts),
        "C10" => checks::c10::explore(opts),
        "C11" => checks::c11::explore(opts),
        "C12" => checks::c12::explore(opts),
        "C13" => checks::c13::explore(opts),
        "C14" => checks::c14::explore(opts),
        "C15" => checks::c15::explore(opts),
        "C16" => checks::c16::explore(opts),
        "C17" => checks::c17::explore(opts),
        "C18" => checks::c18::explore(opts),
        "C19" => checks::c19::explore(opts),
        _ => usage(),
    }
}

fn usage() -> ! {
    eprintln!("usage: corgi-mc <C01..C19|selftest> [--tier quick|thorough] [--only <case>] [--threads n]");
    std::process::exit(2);
}

fn main() {
    let args: Vec<String> = std::env::args().collect();
    if args.len() < 2 {
        usage();
    }
    let id = args[1].clone();
    let mut tier = match std::env::var("VERIF_TIER").as_deref() {
        Ok("thorough") => Tier::Thorough,
        _ => Tier::Quick,
    };
    let seed: u64 = std::env::var("VERIF_SEED").ok().and_then(|s| s.parse().ok()).unwrap_or(0);
    let mut only = None;
    let mut threads = std::thread::available_parallelism().map(|n| n.get()).unwrap_or(4).min(16);
    let mut verbose = false;
    let mut i = 2;
    while i < args.len() {
        match args[i].as_str() {
            "--tier" => {
                i += 1;
                tier = match args.get(i).map(|s| s.as_str()) {
                    Some("quick") => Tier::Quick,
                    Some("thorough") => Tier::Thorough,
                    _ => usage(),
                };
            }
            "--only" => {
                i += 1;
                only = Some(args.get(i).cloned().unwrap_or_else(|| usage()));
            }
            "--threads" => {
                i += 1;
                threads = args.get(i).and_then(|s| s.parse().ok()).unwrap_or_else(|| usage());
            }
            "--verbose" => verbose = true,
            _ => usage(),
        }
        i += 1;
    }
    // library panics are expected outcomes ("refuse"); keep them quiet
    if !verbose {
        // ... but a panic outside `run_catch` is a failure of the machinery and must be seen
        std::panic::set_hook(Box::new(|info| {
            if common::CATCH_DEPTH.with(|d| d.get()) == 0 {
                eprintln!("MACHINERY-ERROR: the harness panicked outside a guarded library call: {}", info);
            }
        }));
    }
    let opts = Opts { id: id.clone(), tier, seed, only, threads, verbose };
    // the reference model is validated before it is believed (fixtures + finite differences)
    let selftest_n = match selftest::run() {
        Ok(n) => n,
        Err(errs) => {
            for e in errs.iter().take(20) {
                eprintln!("SELFTEST: {}", e);
            }
            machinery_error("the reference model failed its own validation");
        }
    };
    if id == "selftest" {
        println!("selftest ok: {} reference-model obligations (fixtures from corgi's tests, forward mode vs finite differences)", selftest_n);
        std::process::exit(0);
    }
    let start = Instant::now();
    let mut history_dependent: Vec<String> = Vec::new();
    let ex = explore_by_id(&id, &opts);
    // determinism: every reported violation must fail again when its case is re-executed alone
    if opts.only.is_none() && !ex.local.violations.is_empty() {
        let mut seen = std::collections::BTreeSet::new();
        let mut sorted: Vec<&Violation> = ex.local.violations.iter().collect();
        sorted.sort_by(|a, b| (a.case.len(), &a.case).cmp(&(b.case.len(), &b.case)));
        for v in sorted {
            if !seen.insert(v.case.clone()) {
                continue;
            }
            if seen.len() > 3 {
                break;
            }
            let mut o = opts.clone();
            o.only = Some(v.case.clone());
            let again = explore_by_id(&id, &o);
            if !again.local.violations.iter().any(|w| w.case == v.case) {
                // not reproducible in isolation: either the library keeps hidden state across calls
                // (then the same full exploration fails the same way again), or the harness is flaky
                let full = explore_by_id(&id, &opts);
                if full.local.violations.iter().any(|w| w.case == v.case) {
                    history_dependent.push(v.case.clone());
                } else {
                    machinery_error(&format!("violation neither reproduced alone nor in a second full run (nondeterminism): {}", v.case));
                }
                break;
            }
        }
    }
    for c in &history_dependent {
        println!("NOTE: the violation of case `{}` reproduces in a second full exploration but not when the case is executed alone: the library's result depends on state left behind by earlier calls in the same thread", c);
    }
    let mut fin = Finish::new(&opts, start, ex.local);
    fin.bounds = ex.bounds;
    fin.rule = ex.rule;
    fin.exhaustive = ex.exhaustive;
    fin.assumptions = ex.assumptions;
    fin.extra.insert("reference_model_selftest_obligations".to_string(), serde_json::json!(selftest_n));
    fin.extra.insert(
        "machine_build_actions_not_generated".to_string(),
        serde_json::json!({
            "operands_must_be_refused": machine::FILTERED_BUILDS[0].load(std::sync::atomic::Ordering::Relaxed),
            "result_outside_the_compared_domain": machine::FILTERED_BUILDS[1].load(std::sync::atomic::Ordering::Relaxed),
            "combination_unspecified": machine::FILTERED_BUILDS[2].load(std::sync::atomic::Ordering::Relaxed),
        }),
    );
    fin.extra.insert(
        "reference_results_skipped_because_only_their_error_bound_overflowed".to_string(),
        serde_json::json!(ops::BOUND_OVERFLOWS.load(std::sync::atomic::Ordering::Relaxed)),
    );
    std::process::exit(fin.finish());
}
