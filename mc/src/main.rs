mod checks;
mod common;
mod gen;
mod machine;
mod nn;
mod ops;
mod prog;
mod progcheck;
mod spaces;
mod refmodel;
mod shapes;

use common::*;
use serde_json::Value;
use std::time::Instant;

pub struct Explored {
    pub local: Local,
    pub bounds: Value,
    pub rule: String,
    pub exhaustive: bool,
    pub assumptions: Vec<String>,
}

fn usage() -> ! {
    eprintln!("usage: corgi-mc <C01..C19|selftest> [--tier quick|thorough] [--only <case>] [--threads n]");
    std::process::exit(2);
}

fn main() {
    let args: Vec<String> = std::env::args().collect();
    if args.len() < 2 {
        usage();
    }
    let id = args[1].clone();
    let mut tier = match std::env::var("VERIF_TIER").as_deref() {
        Ok("thorough") => Tier::Thorough,
        _ => Tier::Quick,
    };
    let seed: u64 = std::env::var("VERIF_SEED").ok().and_then(|s| s.parse().ok()).unwrap_or(0);
    let mut only = None;
    let mut threads = std::thread::available_parallelism().map(|n| n.get()).unwrap_or(4).min(16);
    let mut verbose = false;
    let mut i = 2;
    while i < args.len() {
        match args[i].as_str() {
            "--tier" => {
                i += 1;
                tier = match args.get(i).map(|s| s.as_str()) {
                    Some("quick") => Tier::Quick,
                    Some("thorough") => Tier::Thorough,
                    _ => usage(),
                };
            }
            "--only" => {
                i += 1;
                only = Some(args.get(i).cloned().unwrap_or_else(|| usage()));
            }
            "--threads" => {
                i += 1;
                threads = args.get(i).and_then(|s| s.parse().ok()).unwrap_or_else(|| usage());
            }
            "--verbose" => verbose = true,
            _ => usage(),
        }
        i += 1;
    }
    // library panics are expected outcomes ("refuse"); keep them quiet
    if !verbose {
        std::panic::set_hook(Box::new(|_| {}));
    }
    let opts = Opts { id: id.clone(), tier, seed, only, threads, verbose };
    let start = Instant::now();
    let ex = match id.as_str() {
        "C01" => checks::c01::explore(&opts),
        "C02" => checks::c02::explore(&opts),
        "C03" => checks::c03::explore(&opts),
        "C04" => checks::c04::explore(&opts),
        "C05" => checks::c05::explore(&opts),
        "C06" => checks::c06::explore(&opts),
        "C07" => checks::c07::explore(&opts),
        "C08" => checks::c08::explore(&opts),
        "C09" => checks::c09::explore(&opts),
        "C10" => checks::c10::explore(&opts),
        "C11" => checks::c11::explore(&opts),
        "C12" => checks::c12::explore(&opts),
        "C13" => checks::c13::explore(&opts),
        "C14" => checks::c14::explore(&opts),
        "C15" => checks::c15::explore(&opts),
        "C16" => checks::c16::explore(&opts),
        "C17" => checks::c17::explore(&opts),
        "C18" => checks::c18::explore(&opts),
        "C19" => checks::c19::explore(&opts),
        _ => usage(),
    };
    let mut fin = Finish::new(&opts, start, ex.local);
    fin.bounds = ex.bounds;
    fin.rule = ex.rule;
    fin.exhaustive = ex.exhaustive;
    fin.assumptions = ex.assumptions;
    std::process::exit(fin.finish());
}
