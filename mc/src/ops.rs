//! The operation alphabet: one enum, applied to the reference model and to the real library.

#![allow(dead_code)]

use crate::refmodel::*;
use corgi::array::*;
use corgi::numbers::Float;
use std::cell::RefCell;
use std::rc::Rc;

#[derive(Clone, Debug, PartialEq)]
pub enum OpK {
    Add,
    Sub,
    Mul,
    Div,
    Axpy(f64),
    Neg,
    Scale(f64),
    Powf(f64),
    Ln,
    Exp,
    Recip,
    Relu,
    Sigmoid,
    Softmax,
    Sum(usize),
    Reshape(Vec<usize>),
    Matmul { ta: bool, tb: bool, bias: bool },
    Conv { sr: usize, sc: usize },
    /// user operations supplied through Array::op
    UMul,
    UAdd,
    UScale(f64),
    /// a user operation whose forward closure is the identity written the obvious way: it returns a
    /// clone of its operand
    UIdent,
    /// like UMul, but its derivative closure itself goes through `Array::op(.., Some(closure))`
    UMulN,
}

impl OpK {
    pub fn arity(&self) -> usize {
        match self {
            OpK::Add | OpK::Sub | OpK::Mul | OpK::Div | OpK::Axpy(_) | OpK::UMul | OpK::UAdd | OpK::UMulN => 2,
            OpK::Matmul { bias, .. } => {
                if *bias {
                    3
                } else {
                    2
                }
            }
            OpK::Conv { .. } => 2,
            _ => 1,
        }
    }
    pub fn is_user(&self) -> bool {
        matches!(self, OpK::UMul | OpK::UAdd | OpK::UScale(_) | OpK::UMulN | OpK::UIdent)
    }
    /// polynomial with integer constants: integer inputs give exactly representable results
    pub fn name(&self) -> String {
        match self {
            OpK::Add => "add".into(),
            OpK::Sub => "sub".into(),
            OpK::Mul => "mul".into(),
            OpK::Div => "div".into(),
            OpK::Axpy(a) => format!("axpy({})", a),
            OpK::Neg => "neg".into(),
            OpK::Scale(c) => format!("scale({})", c),
            OpK::Powf(e) => format!("powf({})", e),
            OpK::Ln => "ln".into(),
            OpK::Exp => "exp".into(),
            OpK::Recip => "reciprocal".into(),
            OpK::Relu => "relu".into(),
            OpK::Sigmoid => "sigmoid".into(),
            OpK::Softmax => "softmax".into(),
            OpK::Sum(k) => format!("sum({})", k),
            OpK::Reshape(d) => format!("reshape({:?})", d),
            OpK::Matmul { ta, tb, bias } => format!(
                "matmul(ta={},tb={},bias={})",
                *ta as u8, *tb as u8, *bias as u8
            ),
            OpK::Conv { sr, sc } => format!("conv({},{})", sr, sc),
            OpK::UMul => "umul".into(),
            OpK::UMulN => "umul-nested".into(),
            OpK::UAdd => "uadd".into(),
            OpK::UScale(c) => format!("uscale({})", c),
            OpK::UIdent => "uident".into(),
        }
    }
}

const COND_MAX: f64 = 1.0e3;

fn dom_pos(t: &T) -> Result<(), RErr> {
    for d in &t.x {
        // (positive and well conditioned: the error scale of the operand is at most COND_MAX times its
        // magnitude; there is no absolute threshold - tiny exact operands are in the domain)
        if !(d.v > 0.0) || d.m > COND_MAX * d.v.abs() {
            return Err(RErr::Domain);
        }
    }
    Ok(())
}
fn dom_nonzero(t: &T) -> Result<(), RErr> {
    for d in &t.x {
        if !(d.v.abs() > 0.0) || d.m > COND_MAX * d.v.abs() {
            return Err(RErr::Domain);
        }
    }
    Ok(())
}
fn dom_bounded(t: &T, b: f64) -> Result<(), RErr> {
    for d in &t.x {
        if !(d.v.abs() <= b) {
            return Err(RErr::Domain);
        }
    }
    Ok(())
}

/// how often a reference result was discarded only because its error bound was not finite
pub static BOUND_OVERFLOWS: std::sync::atomic::AtomicU64 = std::sync::atomic::AtomicU64::new(0);

/// Apply the operation in the reference model.
pub fn apply_ref(op: &OpK, a: &[&T]) -> Result<T, RErr> {
    let r = apply_ref_raw(op, a)?;
    for d in &r.x {
        if !d.v.is_finite() || !d.d.is_finite() {
            return Err(RErr::Domain);
        }
        if !d.m.is_finite() || !d.md.is_finite() {
            // value and tangent are fine, only the reference's error bound overflowed: the state is
            // skipped, and counted, because a skipped state is a place where a defect can hide
            BOUND_OVERFLOWS.fetch_add(1, std::sync::atomic::Ordering::Relaxed);
            return Err(RErr::Domain);
        }
    }
    Ok(r)
}

/// As `apply_ref`, without the final guard that keeps results finite: used by the spaces whose
/// valuations overflow on purpose (compared with `cmp_slice_inf`).
pub fn apply_ref_raw(op: &OpK, a: &[&T]) -> Result<T, RErr> {
    if matches!(op, OpK::UMul | OpK::UAdd | OpK::UMulN) && a[0].dims != a[1].dims {
        // the harness's user operations are defined for equal shapes only
        return Err(RErr::Refuse);
    }
    let r = match op {
        OpK::Add | OpK::UAdd => a[0].zip(a[1], |x, y| x.add(y))?,
        OpK::Sub => a[0].zip(a[1], |x, y| x.sub(y))?,
        OpK::Mul | OpK::UMul | OpK::UMulN => a[0].zip(a[1], |x, y| x.mul(y))?,
        OpK::Div => {
            // shape admissibility is decided before the domain
            broadcast_dims(&a[0].dims, &a[1].dims).ok_or(RErr::Refuse)?;
            dom_nonzero(a[1])?;
            a[0].zip(a[1], |x, y| x.div(y))?
        }
        OpK::Axpy(al) => {
            let al = *al;
            a[0].zip(a[1], move |x, y| x.scale(al).add(y))?
        }
        OpK::Neg => a[0].map(|x| x.neg()),
        OpK::UIdent => a[0].map(|x| x),
        OpK::Scale(c) | OpK::UScale(c) => {
            let c = *c;
            a[0].map(move |x| x.scale(c))
        }
        OpK::Powf(e) => {
            let e = *e;
            if e.fract() != 0.0 || e < 0.0 {
                dom_pos(a[0])?;
            }
            a[0].map(move |x| x.powf(e))
        }
        OpK::Ln => {
            // ln is well conditioned in absolute terms for every positive input
            for d in &a[0].x {
                if !(d.v > 0.0) || d.m > COND_MAX * d.v.abs() {
                    return Err(RErr::Domain);
                }
            }
            a[0].map(|x| x.ln())
        }
        OpK::Exp => {
            dom_bounded(a[0], 20.0)?;
            a[0].map(|x| x.exp())
        }
        OpK::Recip => {
            dom_nonzero(a[0])?;
            a[0].map(|x| x.recip())
        }
        OpK::Relu => a[0].map(|x| x.relu()),
        OpK::Sigmoid => {
            // saturating inputs are in the domain: the function is bounded
            dom_bounded(a[0], 1.0e5)?;
            a[0].map(|x| x.sigmoid())
        }
        OpK::Softmax => {
            // every exponential must stay finite in the float type under test
            dom_bounded(a[0], if crate::common::IS_F32 { 85.0 } else { 705.0 })?;
            a[0].softmax()?
        }
        OpK::Sum(k) => a[0].sum(*k)?,
        OpK::Reshape(d) => a[0].reshape(d)?,
        OpK::Matmul { ta, tb, bias } => {
            matmul(a[0], *ta, a[1], *tb, if *bias { Some(a[2]) } else { None })?
        }
        OpK::Conv { sr, sc } => conv(a[0], a[1], *sr, *sc)?,
    };
    Ok(r)
}

// ---------------------------------------------------------------------------------------------
// user operations with an invocation log
// ---------------------------------------------------------------------------------------------

#[derive(Clone, Debug, PartialEq)]
pub struct LogEntry {
    pub tag: usize,
    pub delta_dims: Vec<usize>,
    pub delta: Vec<Float>,
    pub tracked: Vec<bool>,
}

thread_local! {
    static ULOG: RefCell<Vec<LogEntry>> = RefCell::new(Vec::new());
}

pub fn take_user_log() -> Vec<LogEntry> {
    ULOG.with(|l| l.replace(Vec::new()))
}

pub fn log_push(tag: usize, t: &[bool], x: &Array) {
    ULOG.with(|l| {
        l.borrow_mut().push(LogEntry {
            tag,
            delta_dims: x.dimensions().to_vec(),
            delta: x.values().to_vec(),
            tracked: t.to_vec(),
        })
    });
}

fn plain(dims: &[usize], v: Vec<Float>) -> Array {
    Array::from((dims.to_vec(), v))
}

fn ew(a: &Array, b: &Array, f: impl Fn(Float, Float) -> Float) -> Array {
    assert_eq!(a.dimensions(), b.dimensions(), "user op: same-shape operands only");
    plain(
        a.dimensions(),
        a.values().iter().zip(b.values()).map(|(x, y)| f(*x, *y)).collect(),
    )
}

pub fn user_op(op: &OpK, args: &[&Array], tag: usize) -> Array {
    match op {
        OpK::UMul => {
            let fwd: ForwardOp = Rc::new(|x: &[&Array]| ew(x[0], x[1], |p, q| p * q));
            let bwd: BackwardOp = Rc::new(move |c, t, x| {
                log_push(tag, t, x);
                vec![
                    if t[0] { Some(ew(&c[1], x, |p, q| p * q)) } else { None },
                    if t[1] { Some(ew(&c[0], x, |p, q| p * q)) } else { None },
                ]
            });
            Array::op(args, fwd, Some(bwd))
        }
        OpK::UMulN => {
            // the helper a user would write once and use everywhere: always with a derivative closure,
            // also for the products inside its own derivative
            fn my_mul(a: &Array, b: &Array, tag: usize, depth: usize) -> Array {
                let fwd: ForwardOp = Rc::new(|x: &[&Array]| ew(x[0], x[1], |p, q| p * q));
                let bwd: BackwardOp = Rc::new(move |c, t, x| {
                    if depth == 0 {
                        log_push(tag, t, x);
                    }
                    vec![
                        if t[0] { Some(if depth < 2 { my_mul(&c[1], x, tag, depth + 1) } else { ew(&c[1], x, |p, q| p * q) }) } else { None },
                        if t[1] { Some(if depth < 2 { my_mul(&c[0], x, tag, depth + 1) } else { ew(&c[0], x, |p, q| p * q) }) } else { None },
                    ]
                });
                Array::op(&[a, b], fwd, Some(bwd))
            }
            my_mul(args[0], args[1], tag, 0)
        }
        OpK::UAdd => {
            let fwd: ForwardOp = Rc::new(|x: &[&Array]| ew(x[0], x[1], |p, q| p + q));
            let bwd: BackwardOp = Rc::new(move |_, t, x| {
                log_push(tag, t, x);
                vec![
                    if t[0] { Some(plain(x.dimensions(), x.values().to_vec())) } else { None },
                    if t[1] { Some(plain(x.dimensions(), x.values().to_vec())) } else { None },
                ]
            });
            Array::op(args, fwd, Some(bwd))
        }
        OpK::UIdent => {
            let fwd: ForwardOp = Rc::new(|x: &[&Array]| x[0].clone());
            let bwd: BackwardOp = Rc::new(move |_, t, x| {
                log_push(tag, t, x);
                vec![if t[0] { Some(plain(x.dimensions(), x.values().to_vec())) } else { None }]
            });
            Array::op(args, fwd, Some(bwd))
        }
        OpK::UScale(s) => {
            let s = *s as Float;
            // the forward closure uses a differentiable library operation on its (possibly tracked) operand:
            // whatever graph that builds inside the closure is not the operation's derivative - the
            // closure supplied to Array::op is
            let fwd: ForwardOp = Rc::new(move |x: &[&Array]| x[0] * s);
            let bwd: BackwardOp = Rc::new(move |_, t, x| {
                log_push(tag, t, x);
                vec![if t[0] {
                    Some(plain(x.dimensions(), x.values().iter().map(|v| v * s).collect()))
                } else {
                    None
                }]
            });
            Array::op(args, fwd, Some(bwd))
        }
        _ => unreachable!(),
    }
}

/// Apply the operation with the real library (may panic).
pub fn apply_impl(op: &OpK, a: &[&Array], tag: usize) -> Array {
    match op {
        OpK::Add => a[0] + a[1],
        OpK::Sub => a[0] - a[1],
        OpK::Mul => a[0] * a[1],
        OpK::Div => a[0] / a[1],
        OpK::Axpy(al) => Array::axpy(*al as Float, a[0], a[1]),
        OpK::Neg => -a[0],
        OpK::Scale(c) => a[0] * (*c as Float),
        OpK::Powf(e) => a[0].powf(*e as Float),
        OpK::Ln => a[0].ln(),
        OpK::Exp => a[0].exp(),
        OpK::Recip => a[0].reciprocal(),
        OpK::Relu => a[0].relu(),
        OpK::Sigmoid => a[0].sigmoid(),
        OpK::Softmax => a[0].softmax(),
        OpK::Sum(k) => a[0].sum(*k),
        OpK::Reshape(d) => a[0].reshape(d.clone()),
        OpK::Matmul { ta, tb, bias } => {
            Array::matmul((a[0], *ta), (a[1], *tb), if *bias { Some(a[2]) } else { None })
        }
        OpK::Conv { sr, sc } => a[0].conv(a[1], (*sr, *sc)),
        OpK::UMul | OpK::UAdd | OpK::UScale(_) | OpK::UMulN | OpK::UIdent => user_op(op, a, tag),
    }
}
