//! Validation of the reference model before it is believed (DESIGN 8.1):
//!  1. R reproduces expected values and gradients asserted in corgi's own test-suite (fixtures
//!     transcribed from src/array/*.rs tests);
//!  2. R's forward-mode tangents agree with central finite differences of R's own values for
//!     every operation and parameterisation used by the checks.
//! A failure is a machinery error (exit 2), never a verdict about corgi.

use crate::ops::*;
use crate::prog::*;
use crate::refmodel::*;

fn leaf(d: &[usize], v: &[f64]) -> Leaf {
    Leaf { dims: d.to_vec(), vals: v.to_vec() }
}

fn close(a: &[f64], b: &[f64], tol: f64) -> bool {
    a.len() == b.len() && a.iter().zip(b).all(|(x, y)| (x - y).abs() <= tol * (1.0 + y.abs()))
}

fn grad_of(p: &Program, mask: &[bool], root: usize, seed: Option<&[f64]>, v: usize) -> Vec<f64> {
    let base = eval_ref(p, mask, None).expect("fixture evaluates");
    ref_adjoint(p, mask, root, seed, v, &base).expect("fixture adjoint").x.iter().map(|d| d.d).collect()
}

fn fixture(name: &str, ok: bool, errs: &mut Vec<String>) {
    if !ok {
        errs.push(format!("fixture {} is not reproduced by the reference model", name));
    }
}

pub fn run() -> Result<usize, Vec<String>> {
    let mut errs = Vec::new();
    let mut n = 0usize;

    // --- fixtures -----------------------------------------------------------------------------
    // test_backward_control_flow: c = c + a*b; if c > 50 { c = c*a }, ten times
    {
        let mut p = Program { leaves: vec![leaf(&[1], &[5.0]), leaf(&[1], &[2.0]), leaf(&[1], &[0.0])], nodes: vec![], retrack: vec![], frozen: Vec::new(), dropped: Vec::new() };
        let mut c = 2usize;
        for _ in 0..10 {
            p.nodes.push(PNode { op: OpK::Mul, args: vec![0, 1] });
            let ab = p.nv() - 1;
            p.nodes.push(PNode { op: OpK::Add, args: vec![c, ab] });
            c = p.nv() - 1;
            let vals = eval_ref(&p, &[true, true, true], None).unwrap();
            if vals[c].x[0].v > 50.0 {
                p.nodes.push(PNode { op: OpK::Mul, args: vec![c, 0] });
                c = p.nv() - 1;
            }
        }
        let vals = eval_ref(&p, &[true, true, true], None).unwrap();
        fixture("test_backward_control_flow/value", vals[c].x[0].v == 195300.0, &mut errs);
        fixture("test_backward_control_flow/b", grad_of(&p, &[true, true, true], c, None, 1) == vec![97650.0], &mut errs);
        fixture("test_backward_control_flow/a", grad_of(&p, &[true, true, true], c, None, 0) == vec![232420.0], &mut errs);
        n += 3;
    }
    // test_conv_strided
    {
        let img: Vec<f64> = (1..=16).map(|x| x as f64).collect();
        let fil = vec![3.0, 5.0, 1.0, 3.0, 1.0, 3.0, 2.0, 8.0, 1.0, 3.0, 2.0, 8.0];
        let p = Program {
            leaves: vec![leaf(&[2, 2, 4], &img), leaf(&[3, 2, 1, 2], &fil)],
            nodes: vec![PNode { op: OpK::Conv { sr: 1, sc: 2 }, args: vec![0, 1] }],
            retrack: vec![],
 frozen: Vec::new(),
 dropped: Vec::new(),
        };
        let vals = eval_ref(&p, &[true, true], None).unwrap();
        let want = vec![52.0, 76.0, 100.0, 124.0, 105.0, 133.0, 161.0, 189.0, 105.0, 133.0, 161.0, 189.0];
        fixture("test_conv_strided/value", vals[2].dims == vec![3, 2, 2] && vals[2].values() == want, &mut errs);
        let seed: Vec<f64> = (1..=12).map(|x| x as f64).collect();
        let ga = grad_of(&p, &[true, true], 2, Some(&seed), 0);
        let want_a = vec![17.0, 47.0, 22.0, 58.0, 27.0, 69.0, 32.0, 80.0, 29.0, 115.0, 34.0, 134.0, 39.0, 153.0, 44.0, 172.0];
        fixture("test_conv_strided/image gradient", ga == want_a, &mut errs);
        let gf = grad_of(&p, &[true, true], 2, Some(&seed), 1);
        let want_f = vec![50.0, 60.0, 130.0, 140.0, 114.0, 140.0, 322.0, 348.0, 178.0, 220.0, 514.0, 556.0];
        fixture("test_conv_strided/filter gradient", gf == want_f, &mut errs);
        n += 3;
    }
    // test_conv
    {
        let p = Program {
            leaves: vec![leaf(&[1, 3, 3], &[1., 2., 3., 4., 5., 6., 7., 8., 9.]), leaf(&[1, 1, 2, 2], &[3., 5., 2., 6.])],
            nodes: vec![PNode { op: OpK::Conv { sr: 1, sc: 1 }, args: vec![0, 1] }],
            retrack: vec![],
 frozen: Vec::new(),
 dropped: Vec::new(),
        };
        let vals = eval_ref(&p, &[false, false], None).unwrap();
        fixture("test_conv", vals[2].values() == vec![51.0, 67.0, 99.0, 115.0], &mut errs);
        n += 1;
    }
    // test_matmul_broadcast
    {
        let a = vec![1., 2., 3., 3., 2., 1., 4., 5., 6., 7., 8., 9.];
        let p = Program {
            leaves: vec![leaf(&[2, 2, 3], &a), leaf(&[1, 3], &[1., 2., 3.])],
            nodes: vec![PNode { op: OpK::Matmul { ta: false, tb: true, bias: false }, args: vec![0, 1] }],
            retrack: vec![],
 frozen: Vec::new(),
 dropped: Vec::new(),
        };
        let vals = eval_ref(&p, &[true, true], None).unwrap();
        fixture("test_matmul_broadcast/value", vals[2].dims == vec![2, 2, 1] && vals[2].values() == vec![14.0, 10.0, 32.0, 50.0], &mut errs);
        fixture("test_matmul_broadcast/b", grad_of(&p, &[true, true], 2, None, 1) == vec![15.0, 17.0, 19.0], &mut errs);
        fixture("test_matmul_broadcast/a", grad_of(&p, &[true, true], 2, None, 0) == vec![1., 2., 3., 1., 2., 3., 1., 2., 3., 1., 2., 3.], &mut errs);
        n += 3;
    }
    // test_matmul_transpose / test_matmul
    {
        let p = Program {
            leaves: vec![leaf(&[3, 2], &[1., 4., 2., 5., 3., 6.]), leaf(&[3, 2], &[5., 3., 2., 6., 1., 2.])],
            nodes: vec![PNode { op: OpK::Matmul { ta: true, tb: false, bias: false }, args: vec![0, 1] }],
            retrack: vec![],
 frozen: Vec::new(),
 dropped: Vec::new(),
        };
        let vals = eval_ref(&p, &[true, true], None).unwrap();
        fixture("test_matmul_transpose/value", vals[2].values() == vec![12.0, 21.0, 36.0, 54.0], &mut errs);
        fixture("test_matmul_transpose/a", grad_of(&p, &[true, true], 2, None, 0) == vec![8., 8., 8., 8., 3., 3.], &mut errs);
        fixture("test_matmul_transpose/b", grad_of(&p, &[true, true], 2, None, 1) == vec![5., 5., 7., 7., 9., 9.], &mut errs);
        n += 3;
    }
    // test_backward_matmul_vec_multi (additive term)
    {
        let p = Program {
            leaves: vec![leaf(&[2, 3], &[1., 2., 3., 4., 5., 6.]), leaf(&[3, 1], &[1., 2., 3.]), leaf(&[2, 1], &[7., 8.])],
            nodes: vec![PNode { op: OpK::Matmul { ta: false, tb: false, bias: true }, args: vec![0, 1, 2] }],
            retrack: vec![],
 frozen: Vec::new(),
 dropped: Vec::new(),
        };
        let m = [true, true, true];
        let vals = eval_ref(&p, &m, None).unwrap();
        fixture("test_backward_matmul_vec_multi/value", vals[3].values() == vec![21.0, 40.0], &mut errs);
        fixture("test_backward_matmul_vec_multi/c", grad_of(&p, &m, 3, None, 2) == vec![1.0, 1.0], &mut errs);
        fixture("test_backward_matmul_vec_multi/b", grad_of(&p, &m, 3, None, 1) == vec![5.0, 7.0, 9.0], &mut errs);
        n += 3;
    }
    // test_matmul_broadcast_vec: [2]^T x [1,2]
    {
        let p = Program {
            leaves: vec![leaf(&[2], &[1., 2.]), leaf(&[1, 2], &[2., 4.])],
            nodes: vec![PNode { op: OpK::Matmul { ta: true, tb: false, bias: false }, args: vec![0, 1] }],
            retrack: vec![],
 frozen: Vec::new(),
 dropped: Vec::new(),
        };
        let vals = eval_ref(&p, &[true, true], None).unwrap();
        fixture("test_matmul_broadcast_vec/value", vals[2].dims == vec![2, 2] && vals[2].values() == vec![2., 4., 4., 8.], &mut errs);
        fixture("test_matmul_broadcast_vec/a", grad_of(&p, &[true, true], 2, None, 0) == vec![6.0, 6.0], &mut errs);
        n += 2;
    }
    // test_softmax
    {
        let l2 = 2.0f64.ln();
        let p = Program {
            leaves: vec![leaf(&[2, 2], &[l2, l2, 0.0, 0.0]), leaf(&[2, 2], &[3., 5., 2., 5.])],
            nodes: vec![PNode { op: OpK::Softmax, args: vec![0] }, PNode { op: OpK::Mul, args: vec![2, 1] }],
            retrack: vec![],
 frozen: Vec::new(),
 dropped: Vec::new(),
        };
        let vals = eval_ref(&p, &[true, true], None).unwrap();
        fixture("test_softmax/value", close(&vals[3].values(), &[1.5, 2.5, 1.0, 2.5], 1e-12), &mut errs);
        fixture("test_softmax/a", close(&grad_of(&p, &[true, true], 3, None, 0), &[-0.5, 0.5, -0.75, 0.75], 1e-12), &mut errs);
        n += 2;
    }
    // test_sigmoid
    {
        let p = Program {
            leaves: vec![leaf(&[1, 1], &[3.0f64.ln()]), leaf(&[1, 1], &[5.0])],
            nodes: vec![PNode { op: OpK::Sigmoid, args: vec![0] }, PNode { op: OpK::Mul, args: vec![2, 1] }],
            retrack: vec![],
 frozen: Vec::new(),
 dropped: Vec::new(),
        };
        let vals = eval_ref(&p, &[true, true], None).unwrap();
        fixture("test_sigmoid/value", close(&vals[3].values(), &[3.75], 1e-12), &mut errs);
        fixture("test_sigmoid/a", close(&grad_of(&p, &[true, true], 3, None, 0), &[0.9375], 1e-12), &mut errs);
        n += 2;
    }
    // test_sum / test_backward_div_sum / test_mul_broadcast / test_powf
    {
        let p = Program {
            leaves: vec![leaf(&[2, 2, 3], &[1., 2., 3., 4., 5., 6., 9., 8., 7., 7., 6., 5.])],
            nodes: vec![PNode { op: OpK::Sum(1), args: vec![0] }, PNode { op: OpK::Sum(2), args: vec![0] }],
            retrack: vec![],
 frozen: Vec::new(),
 dropped: Vec::new(),
        };
        let vals = eval_ref(&p, &[true], None).unwrap();
        fixture("test_sum/1", vals[1].dims == vec![2, 2, 1] && vals[1].values() == vec![6., 15., 24., 18.], &mut errs);
        fixture("test_sum/2", vals[2].dims == vec![2, 1] && vals[2].values() == vec![21., 42.], &mut errs);
        let p = Program {
            leaves: vec![leaf(&[1, 3], &[2., 4., 2.])],
            nodes: vec![PNode { op: OpK::Sum(1), args: vec![0] }, PNode { op: OpK::Div, args: vec![0, 1] }],
            retrack: vec![],
 frozen: Vec::new(),
 dropped: Vec::new(),
        };
        fixture("test_backward_div_sum", close(&grad_of(&p, &[true], 2, None, 0), &[0.0, 0.0, 0.0], 1e-12), &mut errs);
        let p = Program {
            leaves: vec![leaf(&[2, 3], &[1., 2., 3., 3., 2., 1.]), leaf(&[3], &[1., 2., 3.])],
            nodes: vec![PNode { op: OpK::Mul, args: vec![0, 1] }],
            retrack: vec![],
 frozen: Vec::new(),
 dropped: Vec::new(),
        };
        fixture("test_mul_broadcast/b", grad_of(&p, &[true, true], 2, None, 1) == vec![4., 4., 4.], &mut errs);
        let p = Program {
            leaves: vec![leaf(&[2, 3], &[1., 2., 3., 4., 5., 6.]), leaf(&[2, 3], &[3., 2., 1., 6., 5., 4.])],
            nodes: vec![PNode { op: OpK::Powf(2.0), args: vec![0] }, PNode { op: OpK::Mul, args: vec![2, 1] }],
            retrack: vec![],
 frozen: Vec::new(),
 dropped: Vec::new(),
        };
        fixture("test_powf/a", grad_of(&p, &[true, true], 3, None, 0) == vec![6., 8., 6., 48., 50., 48.], &mut errs);
        n += 5;
    }

    // --- forward mode against finite differences of R's own values ------------------------------
    let h = 1e-5;
    let unary: Vec<OpK> = vec![
        OpK::Neg, OpK::Scale(-2.0), OpK::Powf(-1.0), OpK::Powf(0.5), OpK::Powf(3.0), OpK::Powf(1.5), OpK::Ln, OpK::Exp, OpK::Recip,
        OpK::Relu, OpK::Sigmoid, OpK::Softmax, OpK::Sum(1), OpK::Sum(2), OpK::Reshape(vec![3, 2]),
    ];
    let x0 = vec![0.75, 1.25, 2.0, 0.5, 1.5, 2.25];
    let mut fd_cases: Vec<Program> = Vec::new();
    for op in unary {
        fd_cases.push(Program { leaves: vec![leaf(&[2, 3], &x0)], nodes: vec![PNode { op, args: vec![0] }], retrack: vec![], frozen: Vec::new(), dropped: Vec::new() });
    }
    let y0 = vec![1.5, 0.5, 2.5];
    for op in [OpK::Add, OpK::Sub, OpK::Mul, OpK::Div, OpK::Axpy(-2.0)] {
        fd_cases.push(Program { leaves: vec![leaf(&[2, 3], &x0), leaf(&[3], &y0)], nodes: vec![PNode { op, args: vec![0, 1] }], retrack: vec![], frozen: Vec::new(), dropped: Vec::new() });
    }
    for ta in [false, true] {
        for tb in [false, true] {
            let a = if ta { vec![3, 2] } else { vec![2, 3] };
            let b = if tb { vec![2, 3] } else { vec![3, 2] };
            fd_cases.push(Program {
                leaves: vec![leaf(&[2].iter().chain(a.iter()).cloned().collect::<Vec<_>>(), &[x0.clone(), y0.clone(), y0.clone()].concat()), leaf(&b, &x0), leaf(&[2], &[0.5, 1.5])],
                nodes: vec![PNode { op: OpK::Matmul { ta, tb, bias: true }, args: vec![0, 1, 2] }],
                retrack: vec![],
 frozen: Vec::new(),
 dropped: Vec::new(),
            });
        }
    }
    fd_cases.push(Program {
        leaves: vec![leaf(&[2, 1, 3, 3], &(0..18).map(|i| 0.5 + 0.25 * (i % 7) as f64).collect::<Vec<_>>()), leaf(&[2, 1, 2, 2], &(0..8).map(|i| 1.0 + 0.5 * (i % 3) as f64).collect::<Vec<_>>())],
        nodes: vec![PNode { op: OpK::Conv { sr: 1, sc: 1 }, args: vec![0, 1] }],
        retrack: vec![],
 frozen: Vec::new(),
 dropped: Vec::new(),
    });
    for p in &fd_cases {
        let mask = vec![true; p.nl()];
        let root = p.nl();
        let base = match eval_ref(p, &mask, None) {
            Ok(b) => b,
            Err(e) => {
                errs.push(format!("finite-difference case {} does not evaluate: {:?}", p.describe(), e));
                continue;
            }
        };
        for v in 0..p.nl() {
            let jac = ref_jacobian(p, &mask, root, v, &base).unwrap();
            for e in 0..p.leaves[v].vals.len() {
                let mut pp = p.clone();
                pp.leaves[v].vals[e] += h;
                let mut pm = p.clone();
                pm.leaves[v].vals[e] -= h;
                let (fp, fm) = (eval_ref(&pp, &mask, None).unwrap(), eval_ref(&pm, &mask, None).unwrap());
                for i in 0..base[root].len() {
                    let fd = (fp[root].x[i].v - fm[root].x[i].v) / (2.0 * h);
                    let fw = jac.rows[e][i].d;
                    n += 1;
                    if (fd - fw).abs() > 1e-6 * (1.0 + fw.abs()) {
                        errs.push(format!("{}: d out[{}] / d v{}[{}]: forward mode {} vs finite difference {}", p.describe(), i, v, e, fw, fd));
                    }
                }
            }
        }
    }
    if errs.is_empty() {
        Ok(n)
    } else {
        Err(errs)
    }
}
