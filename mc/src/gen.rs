//! Engine E2: enumerate every straight-line program (expression DAG) with at most `max_nodes`
//! operation nodes over an op alphabet and a fixed pool of leaves. Operands range over all
//! existing values, so sharing, diamonds, self-products, chains and fan-out arise by construction.
//! Only programs whose every operation is shape-admissible and in-domain (according to the
//! reference model) are produced; the numbers dropped are reported by the caller.

#![allow(dead_code)]

use crate::ops::*;
use crate::prog::*;
use crate::refmodel::*;

pub struct GenStats {
    pub programs: u64,
    pub dropped_inadmissible: u64,
    pub dropped_domain: u64,
}

pub struct Gen<'a> {
    pub leaves: Vec<Leaf>,
    pub ops: Vec<OpK>,
    pub max_nodes: usize,
    /// called for every program; `index` is the running program number (for partitioning)
    pub sink: &'a mut dyn FnMut(u64, &Program),
    pub stats: GenStats,
    /// skip magnitude explosion: drop programs whose values exceed this bound
    pub max_abs: f64,
}

impl<'a> Gen<'a> {
    pub fn new(leaves: Vec<Leaf>, ops: Vec<OpK>, max_nodes: usize, sink: &'a mut dyn FnMut(u64, &Program)) -> Gen<'a> {
        Gen { leaves, ops, max_nodes, sink, stats: GenStats { programs: 0, dropped_inadmissible: 0, dropped_domain: 0 }, max_abs: 1.0e12 }
    }

    pub fn run(&mut self) {
        let mut prog = Program { leaves: self.leaves.clone(), nodes: Vec::new(), retrack: Vec::new(), frozen: Vec::new(), dropped: Vec::new() };
        let mut vals: Vec<T> = self.leaves.iter().map(|l| T::from_f64(l.dims.clone(), &l.vals)).collect();
        self.rec(&mut prog, &mut vals);
    }

    fn rec(&mut self, prog: &mut Program, vals: &mut Vec<T>) {
        if prog.nodes.len() >= self.max_nodes {
            return;
        }
        let nv = vals.len();
        let ops = self.ops.clone();
        for op in &ops {
            let ar = op.arity();
            let total = nv.pow(ar as u32);
            for mut code in 0..total {
                let mut args = Vec::with_capacity(ar);
                for _ in 0..ar {
                    args.push(code % nv);
                    code /= nv;
                }
                args.reverse();
                let r = {
                    let refs: Vec<&T> = args.iter().map(|&a| &vals[a]).collect();
                    apply_ref(op, &refs)
                };
                match r {
                    Err(RErr::Refuse) => {
                        self.stats.dropped_inadmissible += 1;
                    }
                    Err(_) => {
                        self.stats.dropped_domain += 1;
                    }
                    Ok(t) => {
                        if t.x.iter().any(|d| d.v.abs() > self.max_abs) {
                            self.stats.dropped_domain += 1;
                            continue;
                        }
                        prog.nodes.push(PNode { op: op.clone(), args });
                        vals.push(t);
                        let idx = self.stats.programs;
                        self.stats.programs += 1;
                        (self.sink)(idx, prog);
                        self.rec(prog, vals);
                        vals.pop();
                        prog.nodes.pop();
                    }
                }
            }
        }
    }
}

/// Collect all programs (for small spaces).
pub fn collect_programs(leaves: Vec<Leaf>, ops: Vec<OpK>, max_nodes: usize) -> (Vec<Program>, GenStats) {
    let mut out = Vec::new();
    let stats = {
        let mut sink = |_: u64, p: &Program| out.push(p.clone());
        let mut g = Gen::new(leaves, ops, max_nodes, &mut sink);
        g.run();
        g.stats
    };
    (out, stats)
}

pub fn same_shape_pool(var: u64) -> Vec<Leaf> {
    vec![
        Leaf { dims: vec![2], vals: vec![2.0 + var as f64, 3.0] },
        Leaf { dims: vec![2], vals: vec![5.0, 7.0 + var as f64] },
        Leaf { dims: vec![2], vals: vec![-3.0, 4.0 + var as f64] },
    ]
}

pub fn broadcast_pool(var: u64) -> Vec<Leaf> {
    let v = var as f64;
    vec![
        Leaf { dims: vec![2, 3], vals: vec![2.0, 3.0 + v, 1.0, 5.0, 1.5, 4.0] },
        Leaf { dims: vec![3], vals: vec![1.0, 2.0 + v, 0.5] },
        Leaf { dims: vec![2, 1], vals: vec![-3.0, -2.0 - v] },
        Leaf { dims: vec![3, 2], vals: vec![1.0, 2.0, 0.5 + v, 3.0, 2.0, 1.0] },
    ]
}

/// leaves for programs around convolution: a batched image, filters, a per-filter bias, a map-shaped weight
pub fn image_pool(var: u64) -> Vec<Leaf> {
    let v = var as f64;
    vec![
        Leaf { dims: vec![2, 1, 4, 4], vals: (0..32).map(|i| ((i * 5 + 1) % 7) as f64 - 2.0 + v).collect() },
        Leaf { dims: vec![2, 1, 2, 2], vals: vec![1.0, -2.0, 3.0 + v, 2.0, -1.0, 1.0, 2.0, -3.0] },
        Leaf { dims: vec![2, 1, 1], vals: vec![1.0, -2.0 - v] },
        Leaf { dims: vec![2, 3, 1], vals: vec![2.0, 1.0, -1.0, 3.0, 1.0 + v, -2.0] },
    ]
}

/// leaves for programs in which an array meets reshape views of itself
pub fn view_pool(var: u64) -> Vec<Leaf> {
    let v = var as f64;
    vec![
        Leaf { dims: vec![3, 1], vals: vec![2.0 + v, -1.5, 0.5] },
        Leaf { dims: vec![3], vals: vec![1.0, 3.0, -2.0 - v] },
    ]
}
