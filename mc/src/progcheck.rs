//! Run one program with a list of passes on the real library and compare every observable
//! (values, gradient presence, gradient dimensions, gradient values) with the reference.

#![allow(dead_code)]

use crate::common::*;
use crate::prog::*;
use crate::refmodel::*;
use corgi::numbers::Float;

#[derive(Clone, Debug, PartialEq)]
pub struct Pass {
    pub root: usize,
    pub seed: Option<Vec<f64>>,
}

pub fn describe_passes(passes: &[Pass]) -> String {
    passes
        .iter()
        .map(|p| match &p.seed {
            None => format!("bw(v{},ones)", p.root),
            Some(s) => format!("bw(v{},{:?})", p.root, s).replace(' ', ""),
        })
        .collect::<Vec<_>>()
        .join(";")
}

pub struct Observed {
    pub values: Vec<(Vec<usize>, Vec<Float>)>,
    pub grads: Vec<Option<(Vec<usize>, Vec<Float>)>>,
}

pub fn observe_impl(p: &Program, mask: &[bool], passes: &[Pass]) -> Result<Observed, String> {
    run_catch(|| {
        let vals = exec_impl(p, mask);
        for ps in passes {
            let seed = ps.seed.as_ref().map(|s| arr(vals[ps.root].dimensions(), s));
            vals[ps.root].backward(seed);
        }
        Observed {
            values: vals.iter().map(|a| (a.dimensions().to_vec(), a.values().to_vec())).collect(),
            grads: vals
                .iter()
                .map(|a| a.gradient().as_ref().map(|g| (g.dimensions().to_vec(), g.values().to_vec())))
                .collect(),
        }
    })
}

#[derive(PartialEq, Eq, Debug, Clone, Copy)]
pub enum Verdict {
    Ok,
    Skipped,
    Violation,
}

pub struct CheckCfg<'a> {
    pub sub: &'a str,
    /// also compare gradients stored on operation nodes
    pub intermediates: bool,
    /// compare forward values too
    pub values: bool,
}

/// Returns the verdict; violations are recorded in `l`.
pub fn check_program(
    p: &Program,
    mask: &[bool],
    passes: &[Pass],
    cfg: &CheckCfg,
    l: &mut Local,
    case: &dyn Fn() -> String,
) -> Verdict {
    let base = match eval_ref(p, mask, None) {
        Ok(b) => b,
        Err(RErr::Refuse) => {
            l.count("skipped_inadmissible");
            return Verdict::Skipped;
        }
        Err(_) => {
            l.count("skipped_domain");
            return Verdict::Skipped;
        }
    };
    // expected adjoints
    let nv = p.nv();
    let mut expect: Vec<Option<T>> = vec![None; nv];
    for ps in passes {
        let reached = p.reached(mask, ps.root);
        for v in 0..nv {
            if !reached[v] {
                continue;
            }
            if v >= p.nl() && !cfg.intermediates && v != ps.root {
                continue;
            }
            // the adjoint of the root itself is the seed (no differentiation needed)
            let direct = if v == ps.root {
                let n = base[v].len();
                Some(T {
                    dims: base[v].dims.clone(),
                    x: (0..n)
                        .map(|i| {
                            let sv = ps.seed.as_ref().map(|s| s[i]).unwrap_or(1.0);
                            Du { v: 0.0, d: sv, m: 0.0, md: sv.abs(), ex: sv.fract() == 0.0, amb: false }
                        })
                        .collect(),
                })
            } else {
                None
            };
            let adj = match direct.map(Ok).unwrap_or_else(|| ref_adjoint(p, mask, ps.root, ps.seed.as_deref(), v, &base)) {
                Ok(a) => a,
                Err(_) => {
                    l.count("skipped_domain");
                    return Verdict::Skipped;
                }
            };
            expect[v] = Some(match &expect[v] {
                None => adj,
                Some(e) => add_adjoint(e, &adj),
            });
        }
    }
    l.transitions += 1;
    l.validated += 1;
    let obs = match observe_impl(p, mask, passes) {
        Ok(o) => o,
        Err(msg) => {
            l.violation(cfg.sub, case(), format!("admissible program panicked: {}", msg));
            return Verdict::Violation;
        }
    };
    let mut h = 0xcbf29ce484222325u64;
    for g in obs.grads.iter().flatten() {
        fnv(&mut h, &digest_vals(&g.0, &g.1).to_le_bytes());
    }
    l.outcome(h);
    if cfg.values {
        for v in 0..nv {
            let (d, x) = &obs.values[v];
            if d != &base[v].dims {
                l.violation(cfg.sub, case(), format!("value v{}: dimensions {:?}, reference {:?}", v, d, base[v].dims));
                return Verdict::Violation;
            }
            if let Err(e) = cmp_slice(x, &base[v].x, Part::Value) {
                l.violation(cfg.sub, case(), format!("value v{}: {}", v, e));
                return Verdict::Violation;
            }
        }
    }
    for v in 0..nv {
        if v >= p.nl() && !cfg.intermediates && !passes.iter().any(|ps| ps.root == v) {
            continue;
        }
        match (&expect[v], &obs.grads[v]) {
            (None, None) => {}
            (None, Some(g)) => {
                l.violation(
                    cfg.sub,
                    case(),
                    format!("v{} must hold no gradient (untracked or not reached) but holds {:?} {}", v, g.0, fmt_vals(&g.1)),
                );
                return Verdict::Violation;
            }
            (Some(_), None) => {
                l.violation(cfg.sub, case(), format!("v{} holds no gradient although it is reached over tracked edges", v));
                return Verdict::Violation;
            }
            (Some(e), Some(g)) => {
                if g.0 != e.dims {
                    l.violation(
                        cfg.sub,
                        case(),
                        format!("gradient of v{} has dimensions {:?}, the array has {:?}", v, g.0, e.dims),
                    );
                    return Verdict::Violation;
                }
                if let Err(msg) = cmp_slice(&g.1, &e.x, Part::Tangent) {
                    let want: Vec<f64> = e.x.iter().map(|d| d.d).collect();
                    l.violation(
                        cfg.sub,
                        case(),
                        format!("gradient of v{}: {}; got {} reference {:?}", v, msg, fmt_vals(&g.1), want),
                    );
                    return Verdict::Violation;
                }
            }
        }
    }
    Verdict::Ok
}
