//! Straight-line programs (expression DAGs) and their evaluation in the reference model
//! (forward mode) and on the real library.

#![allow(dead_code)]

use crate::common::*;
use crate::ops::*;
use crate::refmodel::*;
use crate::shapes::fmt_dims;
use corgi::array::Array;

#[derive(Clone, Debug, PartialEq)]
pub struct Leaf {
    pub dims: Vec<usize>,
    pub vals: Vec<f64>,
}

#[derive(Clone, Debug, PartialEq)]
pub struct PNode {
    pub op: OpK,
    /// indices into the value space: 0..leaves.len() are leaves, then op nodes in order
    pub args: Vec<usize>,
}

#[derive(Clone, Debug, PartialEq)]
pub struct Program {
    pub leaves: Vec<Leaf>,
    pub nodes: Vec<PNode>,
    /// handle deviations that do not change the mathematics: after node `k` has been built
    /// (k = index into `nodes`), value `v` is re-bound to itself through `.tracked()`.
    /// Only applied to values that are already tracked results (a semantic no-op).
    pub retrack: Vec<(usize, usize)>,
    /// operand uses (node index k, operand position) that go through a temporary
    /// `.clone().untracked()` of the operand: the edge carries no gradient although the array is tracked
    pub frozen: Vec<(usize, usize)>,
    /// values whose user handle is dropped right after its last use as an operand (right after its
    /// creation when it is never used): the node then lives on only inside the graph
    pub dropped: Vec<usize>,
}

impl Program {
    pub fn nl(&self) -> usize {
        self.leaves.len()
    }
    pub fn nv(&self) -> usize {
        self.leaves.len() + self.nodes.len()
    }
    pub fn describe(&self) -> String {
        let mut s = String::new();
        for (i, l) in self.leaves.iter().enumerate() {
            s.push_str(&format!("v{}={};", i, fmt_dims(&l.dims)));
        }
        for (i, n) in self.nodes.iter().enumerate() {
            let a: Vec<String> = n
                .args
                .iter()
                .enumerate()
                .map(|(pos, a)| if self.frozen.contains(&(i, pos)) { format!("v{}.clone().untracked()", a) } else { format!("v{}", a) })
                .collect();
            s.push_str(&format!("v{}={}({});", self.nl() + i, n.op.name(), a.join(",")));
            for (k, v) in &self.retrack {
                if *k == i {
                    s.push_str(&format!("v{}=v{}.tracked();", v, v));
                }
            }
            for v in &self.dropped {
                if self.drop_point(*v) == Some(i) {
                    s.push_str(&format!("drop(v{});", v));
                }
            }
        }
        s
    }
    /// tracked flag of every value: leaves from the mask, results iff some operand is tracked
    pub fn tracked(&self, mask: &[bool]) -> Vec<bool> {
        let mut t = mask.to_vec();
        for (k, n) in self.nodes.iter().enumerate() {
            let any = n.args.iter().enumerate().any(|(pos, &a)| t[a] && !self.frozen.contains(&(k, pos)));
            t.push(any);
        }
        t
    }
    /// index of the node after whose construction the handle of `v` is dropped (if it is in `dropped`)
    pub fn drop_point(&self, v: usize) -> Option<usize> {
        let last = self.nodes.iter().enumerate().filter(|(_, n)| n.args.contains(&v)).map(|(k, _)| k).max();
        match last {
            Some(k) => Some(k),
            None => {
                if v >= self.nl() {
                    Some(v - self.nl())
                } else {
                    Some(0)
                }
            }
        }
    }
    /// does the edge (node k, operand pos) carry gradients?
    pub fn edge_tracked(&self, t: &[bool], k: usize, pos: usize) -> bool {
        t[self.nodes[k].args[pos]] && !self.frozen.contains(&(k, pos))
    }
    /// values reachable from `root` over tracked edges (including root itself)
    pub fn reached(&self, mask: &[bool], root: usize) -> Vec<bool> {
        let t = self.tracked(mask);
        let mut r = vec![false; self.nv()];
        r[root] = true;
        let mut v = root;
        while v >= self.nl() {
            // a node without tracked operands keeps no graph
            if r[v] && t[v] {
                let k = v - self.nl();
                for (pos, &a) in self.nodes[k].args.iter().enumerate() {
                    if self.edge_tracked(&t, k, pos) {
                        r[a] = true;
                    }
                }
            }
            if v == 0 {
                break;
            }
            v -= 1;
        }
        r
    }
}

/// Evaluate every value of the program in the reference model. Tangents flow only over edges
/// whose operand is tracked. `inject = (value, element)` makes that element the differentiation
/// variable (the value is treated as a fresh variable: its own inputs do not matter).
pub fn eval_ref(
    p: &Program,
    mask: &[bool],
    inject: Option<(usize, usize)>,
) -> Result<Vec<T>, RErr> {
    let t = p.tracked(mask);
    let mut vals: Vec<T> = Vec::with_capacity(p.nv());
    for (i, l) in p.leaves.iter().enumerate() {
        let mut x = T::from_f64(l.dims.clone(), &l.vals);
        if let Some((v, e)) = inject {
            if v == i {
                x = x.with_basis(e);
            }
        }
        vals.push(x);
    }
    for (k, n) in p.nodes.iter().enumerate() {
        let vi = p.nl() + k;
        let stripped: Vec<T> = n
            .args
            .iter()
            .enumerate()
            .map(|(pos, &a)| if p.edge_tracked(&t, k, pos) { vals[a].clone() } else { vals[a].strip() })
            .collect();
        let refs: Vec<&T> = stripped.iter().collect();
        let mut r = apply_ref(&n.op, &refs)?;
        if let Some((v, e)) = inject {
            if v == vi {
                r = r.with_basis(e);
            }
        }
        vals.push(r);
    }
    Ok(vals)
}

/// Jacobian rows of `root` with respect to every element of `value`, by forward mode:
/// rows[e][i] carries d(root_i)/d(value_e) in its tangent slots.
pub struct Jac {
    pub dims: Vec<usize>,
    pub rows: Vec<Vec<Du>>,
}

pub fn ref_jacobian(p: &Program, mask: &[bool], root: usize, value: usize, base: &[T]) -> Result<Jac, RErr> {
    let n = base[value].len();
    let mut rows = Vec::with_capacity(n);
    for e in 0..n {
        let vals = eval_ref(p, mask, Some((value, e)))?;
        rows.push(vals[root].x.clone());
    }
    Ok(Jac { dims: base[value].dims.clone(), rows })
}

/// Contract a Jacobian with a seed (None = ones): the adjoint of the value, presented in the
/// tangent slots so that `Part::Tangent` compares it.
pub fn contract(j: &Jac, seed: Option<&[f64]>) -> T {
    let mut out = Vec::with_capacity(j.rows.len());
    for row in &j.rows {
        let mut v = 0.0;
        let mut m = 0.0;
        let mut ex = true;
        let mut amb = false;
        for (i, d) in row.iter().enumerate() {
            let s = seed.map(|s| s[i]).unwrap_or(1.0);
            v += s * d.d;
            m += s.abs() * d.md + (s * d.d).abs();
            ex = ex && d.ex && s.fract() == 0.0;
            amb = amb || (d.amb && s != 0.0);
        }
        out.push(Du { v: 0.0, d: v, m: 0.0, md: m, ex, amb });
    }
    T { dims: j.dims.clone(), x: out }
}

/// The adjoint of `value` for a pass started at `root` with `seed` (None = ones).
pub fn ref_adjoint(
    p: &Program,
    mask: &[bool],
    root: usize,
    seed: Option<&[f64]>,
    value: usize,
    base: &[T],
) -> Result<T, RErr> {
    Ok(contract(&ref_jacobian(p, mask, root, value, base)?, seed))
}

/// element-wise sum of adjoints (accumulation over passes)
pub fn add_adjoint(a: &T, b: &T) -> T {
    assert_eq!(a.dims, b.dims);
    T {
        dims: a.dims.clone(),
        x: a.x
            .iter()
            .zip(&b.x)
            .map(|(p, q)| Du {
                v: 0.0,
                d: p.d + q.d,
                m: 0.0,
                md: p.md + q.md + (p.d + q.d).abs(),
                ex: p.ex && q.ex,
                amb: p.amb || q.amb,
            })
            .collect(),
    }
}

/// Execute the program on the real library. Returns one handle per value.
pub fn exec_impl(p: &Program, mask: &[bool]) -> Vec<Array> {
    let mut vals: Vec<Array> = Vec::with_capacity(p.nv());
    for (i, l) in p.leaves.iter().enumerate() {
        let a = arr(&l.dims, &l.vals);
        vals.push(if mask[i] { a.tracked() } else { a });
    }
    for (k, n) in p.nodes.iter().enumerate() {
        let r = {
            let temps: Vec<Option<Array>> = n
                .args
                .iter()
                .enumerate()
                .map(|(pos, &a)| if p.frozen.contains(&(k, pos)) { Some(vals[a].clone().untracked()) } else { None })
                .collect();
            let refs: Vec<&Array> = n.args.iter().enumerate().map(|(pos, &a)| temps[pos].as_ref().unwrap_or(&vals[a])).collect();
            apply_impl(&n.op, &refs, p.nl() + k)
        };
        vals.push(r);
        for (kk, v) in &p.retrack {
            if *kk == k {
                let dummy = Array::from(vec![0.0 as corgi::numbers::Float]);
                let h = std::mem::replace(&mut vals[*v], dummy);
                vals[*v] = h.tracked();
            }
        }
        for v in &p.dropped {
            if p.drop_point(*v) == Some(k) && *v <= p.nl() + k {
                // the user's handle goes away; a placeholder keeps the slot
                vals[*v] = Array::from(vec![0.0 as corgi::numbers::Float]);
            }
        }
    }
    vals
}

pub fn seed_vals(n: usize, kind: u64) -> Vec<f64> {
    // distinct, non-uniform, integer
    (0..n).map(|i| ((i * 3 + 1 + kind as usize * 2) % 7) as f64 + 1.0 + (i / 7) as f64 * 7.0).collect()
}
