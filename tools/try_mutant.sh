#!/bin/bash
# tools/try_mutant.sh <mutant dir with patch.diff demo.rs> <scratch worktree> <check ids...>
# 1. confirms in the scratch worktree: tests pass with the patch, demo fails with / passes without
# 2. applies the patch to /repo, runs the given checks (quick tier), reverts /repo
#    (EVAL_REPO / EVAL_VERIF: use a private copy made by tools/eval_copy.sh instead of /repo and /verif)
set -u
MD="$1"; WT="$2"; shift 2
FEAT="${MUT_FEATURES:-}"
echo "== mutant $MD"
cd "$WT" || exit 2
git checkout -q -- src 2>/dev/null
git apply --check "$MD/patch.diff" || { echo "PATCH-DOES-NOT-APPLY in worktree"; exit 3; }
mkdir -p "$WT/demo_proj_v/src"
cat > "$WT/demo_proj_v/Cargo.toml" <<EOT
[package]
name = "demo_v"
version = "0.1.0"
edition = "2021"
[dependencies]
corgi = { path = ".."$FEAT }
[workspace]
EOT
cp "$WT/Cargo.lock" "$WT/demo_proj_v/" 2>/dev/null
cp "$MD/demo.rs" "$WT/demo_proj_v/src/main.rs"
( cd "$WT/demo_proj_v" && CARGO_NET_OFFLINE=true cargo run --offline -q >/tmp/demo_base.out 2>&1 ); BASE=$?
git apply "$MD/patch.diff"
TESTS=$(CARGO_NET_OFFLINE=true cargo test --offline 2>&1 | grep -E "^test result" | tr '\n' ' ')
( cd "$WT/demo_proj_v" && CARGO_NET_OFFLINE=true cargo run --offline -q >/tmp/demo_mut.out 2>&1 ); MUT=$?
git checkout -q -- src
echo "tests-with-mutant: $TESTS"
echo "demo: base exit=$BASE mutant exit=$MUT"
ER="${EVAL_REPO:-/repo}"; EV="${EVAL_VERIF:-/verif}"
cd "$ER" || exit 2
git apply --check "$MD/patch.diff" || { echo "PATCH-DOES-NOT-APPLY in $ER"; exit 3; }
git apply "$MD/patch.diff"
for c in "$@"; do
  OUT=$($EV/check $c --tier ${MUT_TIER:-quick} 2>&1); RC=$?
  echo "check $c: exit=$RC $(echo "$OUT" | grep -c '^VIOLATION') violation lines; $(echo "$OUT" | grep -E '^\[C' | tail -1)"
  echo "$OUT" | grep -A3 '^VIOLATION' | head -8
done
git checkout -q -- . 
git status --short | head -3
