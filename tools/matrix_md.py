#!/usr/bin/env python3
"""Renders seeded/matrix.tsv + seeded/*/meta.json as seeded/MATRIX.md"""
import json, os
rows=[]
for l in open('/verif/seeded/matrix.tsv').read().splitlines()[1:]:
    parts=l.split('\t')
    if len(parts)<3: parts+=['']*(3-len(parts))
    rows.append((parts[0], parts[1].split(), parts[2].split()))
out=["# Seeded changes and the quick checks that detect them","",
"Every change compiles and keeps the repository's 69 unit + 11 doc tests green. `own` = the check of the property the change was written against.","",
"Rows of rounds 1-4 and of the regressions orig-02..15 list the result of the own check plus the nine checks whose quick tier takes under two seconds (C02 C04 C05 C06 C07 C13 C15 C16 C17), computed with the machinery as it was after round 4: the checks have only grown since, so these rows are lower bounds. Rows of rounds 5-8 (and orig-16, orig-17) ran the own check only (`MATRIX_MODE=own`), with the final machinery; an empty 'detected by' column there together with 'by design' is explained in DESIGN.md 11.4. Rows of round 9 ran the own check plus the nine fast checks with the final machinery.","",
"| change | breaks | what it is / what it needs | detected by (quick tier) | own check detects |","|---|---|---|---|---|"]
for name,det,nd in rows:
    mp=f'/verif/seeded/{name}/meta.json'
    meta=json.load(open(mp)) if os.path.exists(mp) else {}
    prop=meta.get('breaks_property','(regression)')
    what=meta.get('change','')
    needs=meta.get('needs_to_manifest','')
    own = 'yes' if (prop in det) else ('n/a' if prop=='(regression)' else ('no (by design, see DESIGN 11.4)' if meta.get('not_detected') else 'NO'))
    if prop=='(regression)': own = 'yes' if det else 'NO'
    out.append(f"| {name} | {prop} | {what}{' — needs: '+needs if needs else ''} | {' '.join(det) if det else '-'} | {own} |")
open('/verif/seeded/MATRIX.md','w').write('\n'.join(out)+'\n')
print(len(rows),'rows')
