#!/bin/bash
# tools/matrix.sh [mutant dirs...] : detection matrix of seeded changes against all quick checks,
# run on a private copy (/tmp/mx) so that /repo and /verif stay usable meanwhile.
set -u
MX=/tmp/mx
rm -rf $MX; mkdir -p $MX
git -C /repo worktree prune
git -C /repo worktree add -q --detach $MX/repo HEAD
rsync -a --exclude target --exclude replays --exclude .git /verif/ $MX/verif/
sed -i "s|path = \"/repo\"|path = \"$MX/repo\"|" $MX/verif/mc/Cargo.toml
OUT=/verif/seeded/matrix.tsv
# MATRIX_MODE=full runs every check for every change (about 3.5 min per change), MATRIX_MODE=own only the
# check of the change's own property; the default runs the
# check of the change's own property plus the nine checks whose quick tier takes under two seconds
FAST="C02 C04 C05 C06 C07 C13 C15 C16 C17"
ALL="C01 C02 C03 C04 C05 C06 C07 C08 C09 C10 C11 C12 C13 C14 C15 C16 C17 C18"
[ -f $OUT ] || echo -e "mutant\tdetected_by\tnot_detected_by" > $OUT
for md in "$@"; do
  name=$(basename $md)
  grep -q "^$name	" $OUT && continue
  ( cd $MX/repo && git checkout -q -- . && git apply $md/patch.diff ) || { echo -e "$name\tPATCH-FAILED\t" >> $OUT; continue; }
  det=""; ndet=""
  # C19 (the f32 build) repeats the C01-C07 spaces: it is run only for the changes written against C19
  own="${name%%-*}"
  if [ "${MATRIX_MODE:-fast}" = own ]; then
    # only the check of the property the change was written against (regressions: the checks that first reported them)
    CHECKS="$own"; case "$name" in orig-*) CHECKS="C01 C02 C09" ;; esac
  elif [ "${MATRIX_MODE:-fast}" = full ]; then
    CHECKS="$ALL"; case "$name" in C19-*) CHECKS="$ALL C19" ;; esac
  else
    CHECKS="$FAST"
    case "$own" in C??) case " $FAST " in *" $own "*) ;; *) CHECKS="$own $FAST" ;; esac ;; esac
    # regressions of the pinned tree's defects: the checks that first reported them
    case "$name" in orig-*) CHECKS="C01 C03 C09 $FAST" ;; esac
  fi
  for c in $CHECKS; do
    nice -n 10 $MX/verif/check $c --tier quick > $MX/out.log 2>&1; rc=$?
    if [ $rc -eq 1 ]; then det="$det $c"; elif [ $rc -eq 0 ]; then ndet="$ndet $c"; else ndet="$ndet $c(rc=$rc)"; fi
  done
  echo -e "$name\t$det\t$ndet" >> $OUT
  ( cd $MX/repo && git checkout -q -- . )
done
# sanity: unchanged tree is clean
git -C /repo worktree remove --force $MX/repo
rm -rf $MX
echo MATRIX-DONE
