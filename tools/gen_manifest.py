#!/usr/bin/env python3
"""Regenerates /verif/MANIFEST.json from the table below (kept in one place so it stays valid)."""
import json, subprocess

BUILT = [f"C{i:02d}" for i in range(1, 20)]

CHECKS = {
 "C01": ("E2", "exhaustive enumeration of expression DAGs x tracking masks x roots x seeds on the real library, forward-mode reference oracle", "4.C01"),
 "C02": ("E1", "exhaustive enumeration of single-operation programs (op x parameterisation x shapes x tracked subsets x seeds) on the real library, forward-mode Jacobian oracle", "4.C02"),
 "C03": ("E1/E2", "exhaustive enumeration of broadcast shape pairs x ops x number of uses x passes on the real library; gradient dimensions and summed adjoint against the reference", "4.C03"),
 "C04": ("E1", "exhaustive enumeration of all ordered shape pairs of rank<=4 x element-wise ops on the real library against an index-definition reference (value or mandatory refusal)", "4.C04"),
 "C05": ("E1", "exhaustive enumeration of matmul configurations (sizes x transposes x leading patterns x bias forms x rank-1 forms) on the real library against the definition", "4.C05"),
 "C06": ("E1", "exhaustive enumeration of convolution geometries (image, depth, count, filter, strides, batch forms) on the real library against the sliding-window definition", "4.C06"),
 "C07": ("E1", "exhaustive enumeration of shapes x reductions / reshape targets / point-wise maps on the real library against the definitions", "4.C07"),
 "C08": ("E3", "explicit-state BFS (stateright) over a handle-pool machine whose transitions execute the real library; snapshot invariant in every state", "4.C08"),
 "C09": ("E1+E3", "exhaustive op x operand-mask enumeration plus explicit-state BFS over flag/build/pass histories executed on the real library against a tracking-semantics reference", "4.C09"),
 "C10": ("E3", "explicit-state BFS (stateright) over build/backward/clear/drop histories executed on the real library; accumulated-gradient reference and fresh-graph differential", "4.C10"),
 "C11": ("E2", "exhaustive enumeration of user-op DAGs x masks x roots on the real library; invocation-log oracle (once per node, complete adjoint, after all consumers)", "4.C11"),
 "C12": ("E2/E3", "exhaustive enumeration of base programs x handle perturbations (clone/drop/re-bind, deviation bound 2) on the real library; implementation-vs-implementation bitwise oracle", "4.C12"),
 "C13": ("E1", "exhaustive enumeration of parameter lists x gradient subsets x learning rates x two rounds on the real optimizer; bit-exact step oracle", "4.C13"),
 "C14": ("E3", "exhaustive enumeration of model configurations x batch sequences executed on the real model; reference step recomputed from observed parameters each iteration", "4.C14"),
 "C15": ("E1", "exhaustive enumeration of layer / cost / model configurations on the real library against the documented formulas", "4.C15"),
 "C16": ("E1", "exhaustive enumeration of shapes x constructors x indices x equality variants x refusals on the real library against the row-major definition", "4.C16"),
 "C17": ("E2", "exhaustive enumeration of programs x seed pairs x coefficients on the real library; metamorphic linearity oracle", "4.C17"),
 "C18": ("E3", "explicit-state BFS over build/pass/drop histories and training sequences on the real library; sole-ownership probe in every state", "4.C18"),
 "C19": ("E1/E2", "the C01-C07 exhaustive spaces re-executed on the library built with the f32 feature against the f64 reference model", "4.C19"),
}

def main():
    commits = subprocess.run(["git", "-C", "/repo", "log", "--format=%h %s"], capture_output=True, text=True).stdout.splitlines()
    hook_commits = [c.split()[0] for c in commits if c.split(" ", 1)[1].startswith("verif hooks")]
    checks = []
    for pid in sorted(CHECKS):
        if pid not in BUILT:
            continue
        eng, tech, ref = CHECKS[pid]
        checks.append({
            "property_id": pid,
            "quick_cmd": f"./check {pid} --tier quick",
            "thorough_cmd": f"./check {pid} --tier thorough",
            "evidence_file": f"/verif/evidence/{pid}.json",
            "replay_cmd_template": "./check replay {path}",
            "engine": eng,
            "level_claimed": {
                "category": "model_checking",
                "text": "Bounded exhaustive exploration of the real library: every case of the stated finite space is executed and compared with an independent reference; a clean run is a coverage statement for that space, not a sample.",
                "design_ref": ref,
            },
            "level_note": "Trusted base: the reference model in mc/src/refmodel.rs (validated against corgi's own test fixtures and finite differences), fixed generic valuations for array contents, default (non-BLAS) build. Nothing beyond the stated bounds is claimed.",
            "technique": tech,
        })
    na = [{"property_id": p, "reason": "check not built yet (work in progress; planned per DESIGN.md section 4)"} for p in sorted(CHECKS) if p not in BUILT]
    m = {
        "version": 1,
        "setup_cmd": "./check build",
        "hooks": {
            "guard": "cargo feature `verif` of crate corgi",
            "enable": "the harness crate /verif/mc depends on corgi = { path = \"/repo\", features = [\"verif\"] }",
            "baseline_off_cmd": "cd /repo && cargo test --workspace --no-fail-fast --offline",
            "source_commits": hook_commits,
            "add_only": True,
        },
        "engines": [
            {"name": "E1", "path": "/verif/mc/src/checks", "serves_properties": ["C02","C03","C04","C05","C06","C07","C13","C15","C16","C19"], "kind_free_text": "product enumerator over finite configuration spaces, every configuration executed on the real library"},
            {"name": "E2", "path": "/verif/mc/src/prog.rs", "serves_properties": ["C01","C11","C12","C17","C19"], "kind_free_text": "enumerator of all expression DAGs up to a node bound, executed on the real library"},
            {"name": "E3", "path": "/verif/mc/src/machine.rs", "serves_properties": ["C08","C09","C10","C14","C18"], "kind_free_text": "explicit-state BFS (stateright) over a handle-pool machine; every transition replays the history on the real library"},
        ],
        "checks": checks,
        "notes": "All checks are bounded exhaustive explorations of the real code (model checking family). Known findings: /verif/known_findings.txt.",
        "not_applicable": na,
    }
    json.dump(m, open("/verif/MANIFEST.json", "w"), indent=1)
    print("wrote MANIFEST.json with", len(checks), "checks;", len(na), "not claimed")

main()
