#!/usr/bin/env python3
"""Regenerates /verif/MANIFEST.json from the table below (kept in one place so it stays valid)."""
import json, subprocess

BUILT = [f"C{i:02d}" for i in range(1, 20)]

CHECKS = {
 "C01": ("E2", "exhaustive enumeration of expression DAGs (all programs up to a node bound over four op alphabets) x tracking masks x roots x seeds, plus one-deviation variants (an operand through an untracked clone, every ordered pair of passes) fixed large structures, and programs whose user derivative starts a nested pass, each executed on the real library; forward-mode reference oracle", "4.C01",
         "Every program of the stated spaces is built and differentiated by the real library and every leaf and intermediate gradient is compared with an independent forward-mode evaluation; no graph of those spaces drops or double-counts a path."),
 "C02": ("E1", "exhaustive enumeration of single-operation programs (op x parameterisation x operand shapes x tracked subsets x seeds, full Jacobian in the thorough tier; tiny, huge and row-shifted valuations where derivatives sit at the edge of the number range) on the real library; forward-mode Jacobian oracle", "4.C02",
         "Every operation instance of the stated space has its transpose-Jacobian compared entry by entry (thorough) or under two non-uniform seeds (quick) with the reference."),
 "C03": ("E1/E2", "exhaustive enumeration of broadcast shape pairs x ops x operand position x number of uses x own-shape use x passes, reshape views, large operands, infinite and overflowing adjoints, on the real library; gradient dimensions and summed adjoint against the reference", "4.C03",
         "For every broadcast pattern of the stated space the stored gradient has exactly the array's dimensions and equals the summed adjoint, for the first and every later contribution."),
 "C04": ("E1", "exhaustive enumeration of all ordered shape pairs of rank<=4 (sizes<=3 quick, <=5 thorough, plus long shapes) x element-wise ops (axpy with dyadic, non-dyadic and extreme scalars) x valuations (generic, constant, zero, tiny, subnormal divisors) on the real library against an index-definition reference (value or mandatory refusal)", "4.C04",
         "All shape pairs of the stated space are decided: admissible pairs give the broadcast result element by element, all others panic."),
 "C05": ("E1", "exhaustive enumeration of matmul configurations (sizes x four transposes x all pairs of leading patterns x additive-term forms x rank-1 forms x mismatches, plus long inner dimensions and overflowing products / sums) on the real library against the definition", "4.C05",
         "Every configuration of the stated space is compared with the batched transposed product or must be refused."),
 "C06": ("E1", "exhaustive enumeration of convolution geometries (image, depth, filter count and size, both strides, batch forms, every (length, filter, stride) along one axis up to 40/64, large geometries, overflowing windows) on the real library against the sliding-window definition", "4.C06",
         "Every geometry of the stated space is compared element by element with the direct quadruple loop."),
 "C07": ("E1", "exhaustive enumeration of shapes x sum(k) / reshape targets / point-wise maps with signed, zero, tiny, saturating, overflowing and row-shifted valuations, and powf with extreme exponents, on the real library against the definitions", "4.C07",
         "Every shape of the stated space and every parameterisation is compared with the definition, including refusals of reshape."),
 "C08": ("E3", "explicit-state BFS (stateright) over a handle-pool machine (build incl. views and re-binding, builds that must be refused / clone / drop / flag / backward incl. caller-held seeds / clear / fetch / adopt / optimizer update); every transition replays the history on the real library; bitwise snapshot invariant in every state; plus exhaustive sweeps of Model::update over user-defined layers with unused parameters and of updates with hand-written reshaped gradients", "4.C08",
         "In every reachable state of the bounded machines every pre-existing handle shows bit-identical dimensions and values after each action."),
 "C09": ("E1+E3", "exhaustive op-instance x operand-mask sweep plus explicit-state BFS over build / flag / clone / backward / fetch / adopt histories executed on the real library against a tracking-semantics reference", "4.C09",
         "The iff rule holds for every op instance and mask of the sweep; in every reachable state of the machines flags, gradient presence and values match the tracking semantics."),
 "C10": ("E3", "explicit-state BFS (stateright) over build / backward / clear / drop / flag / clone / fetch histories executed on the real library; accumulated-gradient reference and fresh-graph differential; merged on reference state + probed hidden bookkeeping, with an unmerged cross-check", "4.C10",
         "In every reachable state of the bounded machines every gradient equals the sum of the single-pass adjoints since its last clear, and every pass adds what it deposits on a fresh copy of the graph."),
 "C11": ("E2+E3", "exhaustive enumeration of user-op DAGs x masks x roots x handle deviations (re-binding through .tracked(), dropped handles), self-product chains, and a BFS machine with pause/resume actions; invocation-log oracle", "4.C11",
         "In every pass of the stated spaces each user closure of the differentiated graph is invoked exactly once, after its consumers, with the complete adjoint."),
 "C12": ("E2/E3", "exhaustive enumeration of base programs x single and paired handle perturbations (clone / drop before and after the pass / re-bind / flag round trips / aliases / seed handles / hand-installed gradients) over three op alphabets on the real library; implementation-vs-implementation bitwise oracle", "4.C12",
         "Every perturbed run of the stated space yields bit-identical values and gradients through every surviving alias."),
 "C13": ("E1", "exhaustive enumeration of parameter lists x gradient subsets x learning rates x two rounds x three gradient sources, long lists, large parameters, extreme rates, and every Model::update call sequence up to a length, on the real optimizer; per-element step oracle", "4.C13",
         "Every update of the stated space is one step per parameter with its own gradient; frozen parameters are bitwise untouched."),
 "C14": ("E3", "breadth-first exploration of training histories (models x batch sequences x one irregular iteration) executed on one real Model; reference step recomputed from the parameters observed after the prefix history", "4.C14",
         "For every model and history of the stated space the returned loss and every parameter step equal the reference computed from the observed parameters."),
 "C15": ("E1", "exhaustive enumeration of layer / cost / model configurations (incl. wide layers, strides beyond the filter, batch forms) on the real library against the documented formulas", "4.C15",
         "Every configuration of the stated space is compared with the documented formula evaluated on the parameters read from the layer."),
 "C16": ("E1", "exhaustive enumeration of shapes x constructors x refusals x every index x equality variants on the real library against the row-major definition", "4.C16",
         "Every shape of the stated space: layout, refusals, every in-range index and the equality relation are decided."),
 "C17": ("E2", "exhaustive enumeration of programs x masks x roots x seed pairs x coefficient pairs on the real library; metamorphic linearity oracle with reference error bounds; omitted seed vs ones and reused instance vs fresh instances bitwise", "4.C17",
         "For every program of the stated spaces gradients are linear in the seed and an omitted seed equals ones."),
 "C18": ("E3", "explicit-state BFS over build / pass / clear / drop / clone / flag / fetch / update histories plus all forward/backward/update step sequences of three models on the real library; sole-ownership probe in every state", "4.C18",
         "In every reachable state every leaf that the reference says nothing alive derives from converts into a Vec (sole owner)."),
 "C19": ("E1/E2", "the C01-C07 exhaustive spaces re-executed on the library built with the f32 feature against the f64 reference model", "4.C19",
         "Every case of the C01-C07 spaces agrees structurally (dimensions, tracking, refusal) exactly and numerically within the single-precision bound."),
}

def main():
    commits = subprocess.run(["git", "-C", "/repo", "log", "--format=%h %s"], capture_output=True, text=True).stdout.splitlines()
    hook_commits = [c.split()[0] for c in commits if c.split(" ", 1)[1].startswith("verif hooks")]
    checks = []
    for pid in sorted(CHECKS):
        if pid not in BUILT:
            continue
        eng, tech, ref, text = CHECKS[pid]
        checks.append({
            "property_id": pid,
            "quick_cmd": f"./check {pid} --tier quick",
            "thorough_cmd": f"./check {pid} --tier thorough",
            "evidence_file": f"/verif/evidence/{pid}.json",
            "replay_cmd_template": "./check replay {path}",
            "engine": eng,
            "level_claimed": {
                "category": "model_checking",
                "text": text + " Bounded exhaustive exploration of the real library: a clean run is a coverage statement for the stated space (evidence file: states / transitions / bounds), not a sample; nothing beyond the bounds is claimed.",
                "design_ref": ref,
            },
            "level_note": "Trusted base: the reference model in mc/src/refmodel.rs (validated against corgi's own test fixtures and finite differences), fixed generic valuations for array contents, default (non-BLAS) build. Nothing beyond the stated bounds is claimed.",
            "technique": tech,
        })
    na = [{"property_id": p, "reason": "check not built yet (work in progress; planned per DESIGN.md section 4)"} for p in sorted(CHECKS) if p not in BUILT]
    m = {
        "version": 1,
        "setup_cmd": "./check build",
        "hooks": {
            "guard": "cargo feature `verif` of crate corgi",
            "enable": "the harness crate /verif/mc depends on corgi = { path = \"/repo\", features = [\"verif\"] }",
            "baseline_off_cmd": "cd /repo && cargo test --workspace --no-fail-fast --offline",
            "source_commits": hook_commits,
            "add_only": True,
        },
        "engines": [
            {"name": "E1", "path": "/verif/mc/src/checks", "serves_properties": ["C02","C03","C04","C05","C06","C07","C13","C15","C16","C19"], "kind_free_text": "product enumerator over finite configuration spaces, every configuration executed on the real library"},
            {"name": "E2", "path": "/verif/mc/src/prog.rs", "serves_properties": ["C01","C11","C12","C17","C19"], "kind_free_text": "enumerator of all expression DAGs up to a node bound, executed on the real library"},
            {"name": "E3", "path": "/verif/mc/src/machine.rs", "serves_properties": ["C08","C09","C10","C14","C18"], "kind_free_text": "explicit-state BFS (stateright) over a handle-pool machine; every transition replays the history on the real library"},
        ],
        "checks": checks,
        "notes": "All checks are bounded exhaustive explorations of the real code (model checking family). Known findings: /verif/known_findings.txt.",
        "not_applicable": na,
    }
    json.dump(m, open("/verif/MANIFEST.json", "w"), indent=1)
    print("wrote MANIFEST.json with", len(checks), "checks;", len(na), "not claimed")

main()
