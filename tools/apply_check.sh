#!/bin/bash
# tools/apply_check.sh <seeded dir> <check ids...> : apply the patch to /repo, run the checks (quick), revert
# (EVAL_REPO / EVAL_VERIF select a private copy made by tools/eval_copy.sh)
MD="$1"; shift
ER="${EVAL_REPO:-/repo}"; EV="${EVAL_VERIF:-/verif}"
cd "$ER" || exit 2
git apply --check "$MD/patch.diff" || { echo "PATCH-DOES-NOT-APPLY"; exit 3; }
git apply "$MD/patch.diff"
for c in "$@"; do
  OUT=$($EV/check $c --tier ${MUT_TIER:-quick} 2>&1); RC=$?
  echo "$(basename $MD) check $c: exit=$RC; $(echo "$OUT" | grep -E '^\[C' | tail -1 | sed 's/states=.*violations=/violations=/; s/known=.*//')"
  [ -n "${SHOW:-}" ] && echo "$OUT" | grep -A3 '^VIOLATION' | head -8
done
git checkout -q -- .
