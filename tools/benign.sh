#!/bin/bash
# tools/benign.sh [benign dirs...] : silence on property-preserving changes. Every patch under
# /verif/benign changes how corgi computes something (evaluation order, buffer sharing, graph shape,
# numerically equivalent formulas) without breaking any property; every quick check must exit 0 with
# it applied. Runs on a private copy (/tmp/bx) so that /repo and /verif stay usable meanwhile.
set -u
BX=/tmp/bx
rm -rf $BX; mkdir -p $BX
git -C /repo worktree prune
git -C /repo worktree add -q --detach $BX/repo HEAD
rsync -a --exclude target --exclude replays --exclude .git /verif/ $BX/verif/
sed -i "s|path = \"/repo\"|path = \"$BX/repo\"|" $BX/verif/mc/Cargo.toml
OUT=${BENIGN_OUT:-/verif/benign/results.tsv}
echo -e "change\ttests\tsilent\talarms" > $OUT
ALL="${BENIGN_CHECKS:-C01 C02 C03 C04 C05 C06 C07 C08 C09 C10 C11 C12 C13 C14 C15 C16 C17 C18 C19}"
[ $# -eq 0 ] && set -- /verif/benign/B*
for md in "$@"; do
  name=$(basename $md)
  ( cd $BX/repo && git checkout -q -- . && git apply $md/patch.diff ) || { echo -e "$name\tPATCH-FAILED\t\t" >> $OUT; continue; }
  tests=$(cd $BX/repo && CARGO_NET_OFFLINE=true cargo test --offline 2>&1 | grep -E "^test result" | awk '{print $4"/"$6}' | tr '\n' ' ')
  ok=""; bad=""
  for c in $ALL; do
    VERIF_SEED=${VERIF_SEED:-0} nice -n 5 $BX/verif/check $c --tier quick > $BX/out.log 2>&1; rc=$?
    if [ $rc -eq 0 ]; then ok="$ok $c"; else bad="$bad $c(rc=$rc)"; cp $BX/out.log /verif/benign/$name/alarm-$c.log; fi
  done
  echo -e "$name\t$tests\t$ok\t$bad" >> $OUT
  ( cd $BX/repo && git checkout -q -- . )
done
git -C /repo worktree remove --force $BX/repo
rm -rf $BX
echo BENIGN-DONE
