#!/bin/bash
# tools/eval_copy.sh : (re)create a private evaluation copy /tmp/ev/{repo,verif} of the current /repo HEAD and
# /verif working tree (its own target directory is kept between calls), for
#   EVAL_REPO=/tmp/ev/repo EVAL_VERIF=/tmp/ev/verif tools/try_mutant.sh ...
EV=/tmp/ev
mkdir -p $EV
if [ ! -d $EV/repo ]; then git -C /repo worktree prune; git -C /repo worktree add -q --detach $EV/repo HEAD; fi
( cd $EV/repo && git checkout -q -- . )
rsync -a --delete --exclude target --exclude replays --exclude .git --exclude evidence /verif/ $EV/verif/
mkdir -p $EV/verif/evidence
sed -i "s|path = \"/repo\"|path = \"$EV/repo\"|" $EV/verif/mc/Cargo.toml
echo "evaluation copy ready in $EV"
